# SUPERSEDED: this comparison now runs inside `./check` (corr/c05.py registry_tie), through the driver binary and seeded from ctx.rng.
# The stand-alone version below is kept for reference only: it depends on scratch files under /tmp and on a Lean main that no longer exists.
import sys, subprocess, struct, random
sys.dont_write_bytecode = True
sys.path.insert(0, '/repo'); sys.path.insert(0, '/verif/harness')
import minecraft
from minecraft.networking.connection import ConnectionContext
from minecraft.networking import packets
from minecraft.networking.packets import Packet, PacketBuffer
from minecraft.networking.types import VarInt
from gen import c05dispatch as G
PRE = minecraft.PRE

def tok(t):
    # structural token, flags via the live comparisons of the context
    return None

reqs = []; expect = []
for name, d, s in G.TABLES:
    gp = getattr(getattr(packets, d), s).get_packets
    for pv in minecraft.KNOWN_PROTOCOL_VERSIONS:
        ctx = ConnectionContext(protocol_version=pv)
        classes = gp(ctx)
        ids = {}
        for cls in classes:
            try: i = cls.get_id(ctx)
            except Exception: i = None
            ids.setdefault(i, []).append(cls.__name__)
            reqs.append('c05d.ent %s %d %s' % (name, pv, cls.__name__))
            expect.append(('ent', cls, ctx, i))
        for i, cl in ids.items():
            if i is not None and len(cl) == 1:
                reqs.append('c05d.dispatch %s %d %d' % (name, pv, i)); expect.append(('disp', cl[0]))
        if None not in ids:
            reqs.append('c05d.dispatch %s %d %d' % (name, pv, 250)); expect.append(('disp', '~'))
open('reqs.txt','w').write('\n'.join(reqs)+'\n')
out = subprocess.run(['lake','env','lean','--run','/tmp/c05d/drv.lean'], cwd='/verif/lean', input=open('reqs.txt').read(), capture_output=True, text=True)
lines = out.stdout.splitlines()[-len(reqs):]
print(len(reqs), len(lines), out.stderr[:500])
bad = 0
le = lambda c, x: '01'[bool(c.protocol_later_eq(x))]
for r, e, l in zip(reqs, expect, lines):
    if e[0] == 'disp':
        ok = l == 'ok ' + e[1]
    else:
        _, cls, ctx, i = e
        if not l.startswith('ok id='):
            ok = False
        else:
            idpart, codec = l[3:].split(' ')
            ok = idpart == 'id=' + ('~' if i is None else str(i))
            n = cls.__name__
            custom = cls.read is not Packet.read or cls.write_fields is not Packet.write_fields
            if custom:
                exp = {'MapPacket': 'map:' + ''.join(le(ctx, x) for x in (107, 452, PRE | 6, 373, 364)),
                       'SpawnObjectPacket': 'spawn:' + ''.join(le(ctx, x) for x in (49, 458, 100)),
                       'FacePlayerPacket': 'face:' + le(ctx, 353), 'CombatEventPacket': 'combat:' + le(ctx, PRE | 15),
                       'PlayerListItemPacket': 'pli:-', 'PluginResponsePacket': 'plugresp:-'}[n]
                ok = ok and codec == 'codec=' + exp
            else:
                sys.path.insert(0, '/verif/harness')
                import extract
                dfn = cls.get_definition(ctx)
                toks = [extract.wtype_of(t, ctx)[1] for f in dfn for _, t in f.items()]
                ok = ok and codec == 'codec=fields:' + (';'.join(toks) if toks else '-')
    if not ok:
        bad += 1
        if bad < 10: print('MISMATCH', r, '->', l, e[1:] if e[0]=='disp' else '')
print('mismatches', bad)
