# SUPERSEDED: this comparison now runs inside `./check` (corr/c11.py vprofile_play_tie and corr/c10.py vprofile_login_tie), through the driver binary and seeded from ctx.rng.
# The stand-alone version below is kept for reference only: it depends on scratch files under /tmp and on a Lean main that no longer exists.
import sys, subprocess
sys.dont_write_bytecode=True
sys.path.insert(0,'/repo')
import minecraft
from minecraft.networking.connection import ConnectionContext
from minecraft.networking.packets import clientbound as cb, serverbound as sb
from minecraft.networking.types import Long, VarInt, UUID
sup=list(minecraft.SUPPORTED_PROTOCOL_VERSIONS)
exp=[]
for v in sup:
    c=ConnectionContext(protocol_version=v)
    kad=cb.play.KeepAlivePacket.get_definition(c)
    wide = list(kad[0].values())[0] is Long
    assert list(sb.play.KeepAlivePacket.get_definition(c)[0].values())[0] is (Long if wide else VarInt)
    pd=[f for f in cb.play.PlayerPositionAndLookPacket.get_definition(c) if f]
    newer=c.protocol_later_eq(107)
    ack = sb.play.TeleportConfirmPacket.get_id(c) if newer else sb.play.PositionAndLookPacket.get_id(c)
    classes=sorted(cb.play.get_packets(c), key=lambda k:k.__name__)
    others=[k.get_id(c) for k in classes if k.packet_name not in ('keep alive','player position and look','disconnect')]
    sc=[k.get_id(c) for k in classes if k.packet_name=='set compression']
    play='ok ka=%d:%d:%s pos=%d:%d:%s:%s disc=%d tc=%d echo=%d setcomp=%s others=%s'%(
        cb.play.KeepAlivePacket.get_id(c), sb.play.KeepAlivePacket.get_id(c), 'L' if wide else 'V',
        cb.play.PlayerPositionAndLookPacket.get_id(c), ack, 'T' if newer else 'E', 'D' if len(pd)>=8 else '-',
        cb.play.DisconnectPacket.get_id(c), 0, sb.play.PositionAndLookPacket.get_id(c),
        sc[0] if sc else '-', ','.join(map(str,others)))
    L=cb.login; S=sb.login
    plugin = S.PluginResponsePacket in S.get_packets(c)
    pr = L.PluginRequestPacket in L.get_packets(c)
    uu = list(L.LoginSuccessPacket.get_definition(c)[0].values())[0] is UUID
    login='ok ls=%d enc=%d plug=%d plugin=%d cb=%d:%d:%d:%d:%s uuid=%s'%(
        S.LoginStartPacket.get_id(c), S.EncryptionResponsePacket.get_id(c), S.PluginResponsePacket.get_id(c), plugin,
        L.DisconnectPacket.get_id(c), L.EncryptionRequestPacket.get_id(c), L.LoginSuccessPacket.get_id(c), L.SetCompressionPacket.get_id(c),
        L.PluginRequestPacket.get_id(c) if pr else '-', 'B' if uu else 'S')
    exp.append((v,play,login))
open('x.lean','w').write('import PyCraft.Drive.VersionProfiles\nopen PyCraft PyCraft.Drive\n#eval do\n  for v in liveTables.supportedProtocols do\n    IO.println s!"{v}|{(vprofile ["vprofile.play", toString v]).getD "?"}|{(vprofile ["vprofile.login", toString v]).getD "?"}"\n')
out=subprocess.run(['lake','env','lean','/tmp/vp/x.lean'],cwd='/verif/lean',capture_output=True,text=True).stdout.strip().split('\n')
got=[tuple(l.split('|')) for l in out]
bad=0
for (v,p,l),g in zip(exp,got):
    if (str(v),p,l)!=g:
        bad+=1
        if bad<5: print('MISMATCH',v,'\n ',p,'\n ',g[1],'\n ',l,'\n ',g[2])
print(len(exp),len(got),'mismatches',bad)
