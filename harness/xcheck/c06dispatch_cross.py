# SUPERSEDED: this comparison now runs inside `./check` (corr/c06.py dispatch_tie), through the driver binary and seeded from ctx.rng.
# The stand-alone version below is kept for reference only: it depends on scratch files under /tmp and on a Lean main that no longer exists.
import random, subprocess, sys
sys.path.insert(0, '/repo')
import minecraft
from minecraft.networking import connection as C
from minecraft.networking.connection import ConnectionContext
from minecraft.networking import packets

random.seed(int(sys.argv[1]) if len(sys.argv) > 1 else 1)
class Stub: pass
reqs, expect = [], []
mods = [packets.clientbound.play, packets.clientbound.login, packets.clientbound.status,
        packets.serverbound.play]
vers = list(minecraft.SUPPORTED_PROTOCOL_VERSIONS)
for n in range(400):
    pv = random.choice(vers + [317, 336, 343, 389, 392] * 10)
    ctx = ConnectionContext(protocol_version=pv)
    mod = random.choice(mods)
    classes = list(mod.get_packets(ctx))
    random.shuffle(classes)
    k = random.randint(0, len(classes))
    order = classes[:k]
    # duplicates of the same class are legal in a list, too
    if order and random.random() < 0.2:
        order.append(random.choice(order))
    class R(C.PacketReactor):
        get_clientbound_packets = staticmethod(lambda c, order=order: order)
    s = Stub(); s.context = ctx
    r = R(s)
    ents = [(c.__name__, c.get_id(ctx)) for c in order]
    tok = ','.join('%s:%d' % e for e in ents) or '-'
    items = sorted((k, v.__name__) for k, v in r.clientbound_packets.items())
    reqs.append('c06dict ' + tok)
    expect.append('ok ' + (','.join('%d:%s' % kv for kv in items) or '-'))
    for i in set([e[1] for e in ents][:3] + [random.randint(0, 100)]):
        got = r.clientbound_packets.get(i)
        reqs.append('c06get %s %d' % (tok, i))
        expect.append('ok ' + (got.__name__ if got else 'base'))
        reqs.append('c06classes %s %d' % (tok, i))
        cs = [n for n, j in ents if j == i]
        expect.append('ok ' + (','.join(cs) or '-'))
        # the real winner is one of the model's candidates
        assert (got is None and not cs) or got.__name__ in cs
# full read_packet path on the REAL reactors at K1 versions: class of the returned packet
p = subprocess.run(['lake', 'env', 'lean', '--run', '/tmp/c06d/drv.lean'], cwd='/verif/lean',
                   input='\n'.join(reqs) + '\n', capture_output=True, text=True)
out = p.stdout.splitlines()
bad = [(q, e, o) for q, e, o in zip(reqs, expect, out) if e != o]
print(len(reqs), 'requests', len(out), 'replies', len(bad), 'mismatches', p.stderr[:300])
for b in bad[:5]:
    print(b)
