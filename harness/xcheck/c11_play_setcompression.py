import sys, struct, random, subprocess
sys.path.insert(0, '/verif/harness'); sys.path.insert(0, '/tmp/fix1/repo_clean')
import refcodec as rc, simnet
from refserver import RefServer
import minecraft.networking.connection as C
from minecraft.networking import packets as P
from minecraft.networking.packets import clientbound as cb, serverbound as sb

DRV = sys.argv[1]
V = 47
cx = C.ConnectionContext(protocol_version=V)
KA_CB = cb.play.KeepAlivePacket.get_id(cx); KA_SB = sb.play.KeepAlivePacket.get_id(cx)
PL_CB = cb.play.PlayerPositionAndLookPacket.get_id(cx); PL_SB = sb.play.PositionAndLookPacket.get_id(cx)
DISC = cb.play.DisconnectPacket.get_id(cx); SETC = cb.play.SetCompressionPacket.get_id(cx)
assert SETC in [c.get_id(cx) for c in cb.play.get_packets(cx)]

class Srv(RefServer):
    def run_script(self):
        # like RefServer.run_script but with a play-state set compression step
        while self.script:
            if self.script[0][0] == 'playcompress':
                n = self.script.pop(0)[1]
                self.send_packet(SETC, rc.varint(n))
                self.compress_out = n
            else:
                step = self.script[0]
                rest = self.script[1:]
                self.script = [step]
                RefServer.run_script(self)
                self.script = rest + self.script if not self.script else self.script + rest
                if self.script and self.script[0] is step:
                    break
    def on_bytes(self, data):
        if self.state == 'play':
            return
        RefServer.on_bytes(self, data)

rng = random.Random(2024)
lines, impl = [], []
for case in range(120):
    n = rng.choice([1, 2, 5, 20, 49, 50, 51, 52, 99, 100, 101, 120, 160, 230])
    comp0 = rng.choice([None, None, 128])
    evs, script, srv = [], [], b''
    thr = comp0
    def add(pid, body):
        global srv
        script.append(('raw', pid, body)); 
    for i in range(n):
        r = rng.random()
        if r < 0.5:
            kid = rng.choice([0, 1, 127, 128, 300, 2**31-1, 2**32-2])
            evs.append('ka:%d' % kid); script.append(('raw', KA_CB, rc.varint(kid)))
            srv += rc.frame(rc.varint(KA_CB) + rc.varint(kid), thr)
        elif r < 0.7:
            x, y, z, yaw, pitch = (rng.randrange(-1000, 1000) for _ in range(5)); fl = rng.randrange(32)
            body = struct.pack('>dddff', x, y, z, yaw, pitch) + bytes([fl])
            evs.append('pos:%s:%s:%s:%s:%s:%d:0' % (struct.pack('>d', x).hex(), struct.pack('>d', y).hex(), struct.pack('>d', z).hex(),
                                                  struct.pack('>f', yaw).hex(), struct.pack('>f', pitch).hex(), fl))
            script.append(('raw', PL_CB, body)); srv += rc.frame(rc.varint(PL_CB) + body, thr)
        elif r < 0.85:
            data = bytes(rng.randrange(256) for _ in range(rng.choice([0, 1, 5, 40])))
            evs.append('unk:%d:%s' % (0x7E, data.hex() or '-')); script.append(('raw', 0x7E, data))
            srv += rc.frame(rc.varint(0x7E) + data, thr)
        else:
            t = rng.choice([64, 100, 256, 1000, 2**31-1, 2**32-1])
            evs.append('setc:%d' % t); script.append(('playcompress', t))
            srv += rc.frame(rc.varint(SETC) + rc.varint(t), thr)
            thr = t
    if rng.random() < 0.5:
        j = '{"text":"bye"}'
        evs.append('disc:%s' % j.encode().hex()); script.append(('raw', DISC, rc.string(j)))
        srv += rc.frame(rc.varint(DISC) + rc.string(j), thr)
    pre = ([('compress', comp0)] if comp0 is not None else []) + [('success',)]
    cfg = {'version': V, 'script': pre + script}
    if rng.random() < 0.5:
        cfg['segment'] = rng.choice([1, 2, 3, 7, 16])
    calls = []
    with simnet.Net(lambda s: Srv(s, cfg)) as net:
        conn = C.Connection('h', 1, username='u', allowed_versions={V},
                            handle_exception=lambda e, i: calls.append(('exc', repr(e))),
                            handle_exit=lambda: calls.append(('exit',)))
        conn.connect()
        net.run_threads()
        raw_sent = bytes(net.sockets[0].sent)
        final_thr = conn.options.compression_threshold if conn.options.compression_enabled else None
    p_ = 0
    for _ in range(2):
        n_, q_ = rc.read_varint(raw_sent, p_); p_ = q_ + n_
    cli = raw_sent[p_:]
    lines.append('playwire.run ka=%d:%d:V pos=%d:%d:E:- disc=%d thr=%s capw=300 capr=50 setc=%d %s' % (
        KA_CB, KA_SB, PL_CB, PL_SB, DISC, 'none' if comp0 is None else comp0, SETC, ' '.join(evs)))
    impl.append((srv, cli, calls, final_thr))
out = subprocess.run([DRV], input='\n'.join(lines) + '\n', capture_output=True, text=True).stdout.splitlines()
bad = skipped = 0; mixed = 0; withsc = 0
for line, mo, (srv, cli, calls, fthr) in zip(lines, out, impl):
    if mo == 'skip:deflate':
        skipped += 1; continue
    f = dict(x.split('=', 1) for x in mo.split()[1:]) if mo.startswith('ok ') else {}
    want = 'srv=%s cli=%s' % (srv.hex() or '-', cli.hex() or '-')
    got = 'srv=%s cli=%s' % (f.get('srv'), f.get('cli'))
    if 'setc:' in line: withsc += 1
    th = f.get('thrs', '-').split(',')
    if len(set(th)) > 1: mixed += 1
    if got != want or any(c[0] == 'exc' for c in calls):
        bad += 1
        if bad < 4:
            print('DISAGREE', line[:200]); print(' model', got[:300]); print(' real ', want[:300]); print(calls[:2])
print('cases', len(lines), 'with setc', withsc, 'replies under >1 distinct threshold', mixed, 'skipped(deflate)', skipped, 'disagreements', bad)
