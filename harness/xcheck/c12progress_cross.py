# SUPERSEDED: this comparison now runs inside `./check` (corr/c12.py progress_tie), through the driver binary and seeded from ctx.rng.
# The stand-alone version below is kept for reference only: it depends on scratch files under /tmp and on a Lean main that no longer exists.
import sys, random, subprocess, json
sys.path.insert(0, '/repo'); sys.path.insert(0, '/verif/harness'); sys.path.insert(0, '/verif/harness/corr')
import minecraft.networking.connection as C
from minecraft.networking import encryption as E
import c12

rng = random.Random(12345)
cases = []   # (capw, capr, progs_str, sched_prefix, enabled_real)
drains = []  # (capw,capr,progs_str, sched, n, bound, sent_real)

def prog_str(p): return c12.prog_str(p)

# 1. enabled sets along random walks
for i in range(40):
    progs = c12.gen_programs(rng)
    rec = []
    def choose(en, n, rec=rec):
        rec.append(sorted(en))
        return rng.choice(en) if rng.random() < 0.6 or 0 not in en else 0
    r = c12.scenario(C, E, progs, choose, 'plain')
    ran = r['ran']
    assert len(ran) == len(rec)
    for k in range(len(ran)):
        cases.append((300, 50, prog_str(progs), ran[:k], rec[k]))

# 2. drains: thread 1 queues n packets, then NT alone for 11n+2 actions, then thread 2 disconnects
for capw, capr in [(300, 50), (1, 50), (1, 1), (2, 3)]:
    for n in range(1, 6):
        progs = [[('q', k) for k in range(1, n + 1)], [('d', 0)]]
        B = 11 * n + 2
        state = {'k': 0}
        snap = {}
        def choose(en, idx, state=state, snap=snap, n=n, B=B):
            # phase 1: thread 1 until it is done (n apps + end)
            if 1 in en:
                return 1
            if state['k'] < B:
                assert 0 in en, ('NT blocked in solo run', en)
                state['k'] += 1
                return 0
            if 'log' not in snap:
                snap['log'] = True
                snap['at'] = idx
            return 2 if 2 in en else 0
        r = c12.scenario(C, E, progs, choose, 'plain', capw=capw, capr=capr)
        at = snap['at']
        # events of the first `at` steps
        log = r['log']
        # log entries are (tid, kind, ...) one per step
        sent = [e[2] for e in log[:at] if e[1] == 'snd' and e[3] == 1]
        drains.append((capw, capr, prog_str(progs), r['ran'][:at], n, B, sent, c12.fmt_log(log[:at]) if hasattr(c12,'fmt_log') else None))
        assert sent == list(range(1, n + 1)), (capw, capr, n, sent)
print('real code: %d enabled-set observations, %d drain runs: all queued packets on the wire after 11n+2 NT actions' % (len(cases), len(drains)))
json.dump({'cases': cases, 'drains': drains}, open('/tmp/c12p/x/obs.json', 'w'))
