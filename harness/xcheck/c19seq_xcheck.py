"""Real-code observations for the driver commands `authseq.run` and `c19json`
(lean/PyCraft/Drive/C19Seq.lean).

usage:  /venv/bin/python harness/xcheck/c19seq_xcheck.py <N> <seed>            prints N lines
            `request<TAB>expected reply` (random program runs of the REAL AuthenticationToken, every HTTP
            exchange intercepted at requests.adapters.HTTPAdapter.send by harness/gen/c19seq.py `Net`, and
            random JSON texts through the real json module); corr/c19.py (`seq_tie`) feeds the requests to the
            driver binary.  All randomness comes from <seed>.
        /venv/bin/python harness/xcheck/c19seq_xcheck.py <N> <seed> --check    additionally feeds the
            requests to the driver binary (lean/.lake/build/bin/driver) and reports every disagreement;
            exit status 1 if there is one.

Runs as a SUBPROCESS of the check: it replaces HTTPAdapter.send and authentication.uuid.uuid4 while a run is
observed (both restored in `finally`), and a hang of the code under test ends in the caller's timeout.
Bounded besides: more than REQUEST_BUDGET HTTP requests in one call end the call (`spin:requests`).
Exceptions of the code under test that the model has no outcome for become `raised:<Type>`.

Inputs are kept inside the model's stated restrictions: JSON numbers are integers, no lone
surrogates, object keys distinct; `error` / `errorMessage` members of error replies are not lists or
dicts (their `repr` inside the exception text is not modelled; the driver prints `?` there and the
expected reply does the same).
"""
import json
import os
import random
import subprocess
import sys

sys.dont_write_bytecode = True
HERE = os.path.dirname(os.path.abspath(__file__))
sys.path.insert(0, os.path.dirname(HERE))
from gen import c19seq as G          # noqa: E402


REQUEST_BUDGET = 20


class Spin(BaseException):
    """the code under test keeps sending requests within one call"""


class BudgetLog(list):
    def append(self, x):
        if len(self) >= REQUEST_BUDGET:
            raise Spin('requests')
        list.append(self, x)


def S(s):
    return s.encode('utf-8').hex() or '-'


def clean(s):
    return ''.join(ch if ch.isprintable() and not ch.isspace() and ch not in ';/@' else '_' for ch in str(s))[:80]


def Jt(v):
    return S(json.dumps(v))


STR = ['', 'a', 'acc-A', 'x y', '\xe9', 'J\xfcrgen \U0001f600', 'q"u\\o\nte', '\x00\x7f', 'ff00']


def rnd_jval(rng, depth=2):
    k = rng.random()
    if k < 0.35 or depth == 0:
        return rng.choice(STR)
    if k < 0.5:
        return None
    if k < 0.6:
        return rng.choice([True, False])
    if k < 0.75:
        return rng.choice([0, 1, -7, 10 ** 20, 42])
    if k < 0.87:
        return [rnd_jval(rng, depth - 1) for _ in range(rng.randrange(3))]
    keys = rng.sample(['id', 'name', 'k', '', 'error', '\xe9'], rng.randrange(3))
    return {key: rnd_jval(rng, depth - 1) for key in keys}


def rnd_attr(rng):
    k = rng.random()
    if k < 0.55:
        return rng.choice(['alice', 'acc-A', 'cli-A', 'x'])
    if k < 0.75:
        return None
    if k < 0.85:
        return ''
    return rnd_jval(rng, 1)


def rnd_body(rng):
    """-> bytes served"""
    k = rng.random()
    if k < 0.40:
        obj = {}
        for key in ('accessToken', 'clientToken'):
            if rng.random() < 0.85:
                obj[key] = rnd_attr(rng) if rng.random() < 0.4 else key[:3] + '-B'
        if rng.random() < 0.85:
            if rng.random() < 0.75:
                sp = {}
                if rng.random() < 0.85:
                    sp['id'] = rnd_attr(rng) if rng.random() < 0.3 else 'id-B'
                if rng.random() < 0.85:
                    sp['name'] = rnd_attr(rng) if rng.random() < 0.3 else 'B\xf6b'
                obj['selectedProfile'] = sp
            else:
                obj['selectedProfile'] = rnd_jval(rng, 1)
        if rng.random() < 0.3:
            obj['user'] = {'id': 'ignored'}
        return json.dumps(obj).encode()
    if k < 0.62:
        atom = lambda: rng.choice(['ForbiddenOperationException', 'E', '', 'Invalid token', 5, None, True, -3])
        obj = {'error': atom(), 'errorMessage': atom()}
        if rng.random() < 0.5:
            obj['cause'] = rnd_jval(rng, 1)
        return json.dumps(obj).encode()
    if k < 0.72:
        return json.dumps(rng.choice([{'error': 'x'}, {'errorMessage': 'y'}, {}, {'cause': 'z'}])).encode()
    if k < 0.84:
        return rng.choice([b'[]', b'[1, 2]', b'5', b'null', b'true', b'"error errorMessage"', b' {"a" : [ ] } '])
    if k < 0.93:
        return rng.choice([b'<html>Bad Gateway</html>', b'{', b'error', b'{"a":1,}', b'\xc3\xa9'])
    return b''


def rnd_run(rng):
    ntok = rng.choice([0, 1, 1, 2, 2, 3])
    inits = [tuple(rnd_attr(rng) for _ in range(3)) for _ in range(ntok)]
    steps = []
    for _ in range(rng.randrange(0, 7)):
        # mostly an existing token; now and then a number no token has (the model: `skip`)
        i = rng.randrange(0, ntok + 1) if ntok == 0 or rng.random() < 0.12 else rng.randrange(ntok)
        op = rng.choice(['authenticate', 'refresh', 'validate', 'invalidate', 'join', 'signout'])
        if steps and steps[-1][0][0] in ('authenticate', 'refresh') and rng.random() < 0.4:
            op, i = 'join', steps[-1][0][1]      # what a login does next: join with whatever the token now holds
        if op == 'authenticate':
            call = (op, i, '%032x' % rng.getrandbits(128), rng.choice(STR), rng.choice(STR), rng.random() < 0.3)
        elif op == 'join':
            call = (op, i, rng.choice(STR))
        elif op == 'signout':
            call = (op, rng.choice(STR), rng.choice(STR))
        else:
            call = (op, i)
        k = rng.random()
        if k < 0.08:
            reply = None
        elif k < 0.33 and op in ('authenticate', 'refresh'):
            # a complete result (the common case in real life), so that later calls see a filled token
            reply = (200, json.dumps({'accessToken': rng.choice(['acc-B', 'x', '']), 'clientToken': rng.choice(['cli-B', 'y', '']),
                                      'selectedProfile': {'id': rng.choice(['id-B', '', None]), 'name': rng.choice(['B\xf6b', '', None])}}).encode())
        else:
            status = rng.choice([200, 204, 400, 401, 403, 404, 429, 500, 503]) if rng.random() < 0.6 else \
                rng.choice([200, 200, 204])
            reply = (status, rnd_body(rng))
        steps.append((call, reply))
    return inits, steps


def call_tok(call):
    k = call[0]
    if k == 'authenticate':
        return 'auth:%d:%s:%s:%s:%d' % (call[1], S(call[2]), S(call[3]), S(call[4]), call[5])
    if k == 'join':
        return 'join:%d:%s' % (call[1], S(call[2]))
    if k == 'signout':
        return 'signout:%s:%s' % (S(call[1]), S(call[2]))
    return '%s:%d' % (k, call[1])


def resp_tok(reply):
    if reply is None:
        return 'fail'
    rs = G.reply_as_seen(reply)
    return '%d:%s' % (reply[0], S(rs[1]))


def request_line(inits, steps):
    it = ';'.join(','.join(Jt(x) for x in t) for t in inits) or '-'
    return ' '.join(['authseq.run', it] + ['%s@%s' % (call_tok(c), resp_tok(r)) for c, r in steps])


def observe_raw(inits, steps):
    """Like gen.c19seq.observe, but returns Python values instead of Lean source."""
    A = G._auth()
    import requests
    from minecraft.exceptions import YggdrasilError
    net = G.Net()
    net.install()
    real_uuid4 = A.uuid.uuid4
    try:
        toks = [A.AuthenticationToken(u, a, c) for (u, a, c) in inits]
        obs = []
        for call, reply in steps:
            net.reply, net.log = reply, BudgetLog()
            kind = call[0]
            if kind == 'signout':
                fn = lambda: A.AuthenticationToken.sign_out(call[1], call[2])
            else:
                if call[1] >= len(toks):
                    obs.append('skip')
                    continue
                t = toks[call[1]]
                if kind == 'authenticate':
                    class U(object):
                        hex = call[2]
                    A.uuid.uuid4 = lambda: U
                    fn = lambda: t.authenticate(call[3], call[4], invalidate_previous=call[5])
                elif kind == 'join':
                    fn = lambda: t.join(call[2])
                else:
                    fn = getattr(t, kind)
            try:
                r = fn()
                out = 'ret:1' if r is True else 'ret:none' if r is None else 'ret:0' if r is False else 'ret:%s' % clean(repr(r))
            except Spin:
                out = 'spin:requests'
            except YggdrasilError as e:
                try:
                    a0 = e.args[0] if e.args else None
                    if isinstance(e.yggdrasil_error, (list, dict)) or isinstance(e.yggdrasil_message, (list, dict)):
                        at = '?'
                    else:
                        at = '~' if a0 is None else S(a0)
                    out = 'ygg:%s:%s:%s:%s:%s' % ('~' if e.status_code is None else e.status_code,
                                                  Jt(e.yggdrasil_error), Jt(e.yggdrasil_message),
                                                  Jt(e.yggdrasil_cause), at)
                except Exception as e2:      # attributes missing / not JSON values: not a modelled outcome
                    out = 'raised:YggdrasilError!%s' % type(e2).__name__
            except requests.ConnectionError:
                out = 'transport'
            except ValueError as e:
                a0 = e.args[0] if e.args else None
                why = {'accessTokenNotSet': 'access', 'clientTokenNotSet': 'client'}.get(
                    G.VALUE_WHY.get(a0 if isinstance(a0, str) else None), 'json')
                out = 'value:' + why
            except KeyError as e:
                out = 'key:' + S(e.args[0]) if e.args and isinstance(e.args[0], str) else 'raised:KeyError!%s' % clean(e.args)
            except TypeError:
                out = 'type'
            except AttributeError:
                out = 'attr'
            except Exception as e:
                out = 'raised:%s' % type(e).__name__
            if len(net.log) > 1:
                out += '!%d-requests' % len(net.log)
            if net.log:
                method, url, hdrs, body, timeout = net.log[0]
                rq = '%s,%s,%s,%s,%s' % (method, S(url), S(';'.join('%s=%s' % kv for kv in hdrs)), S(body), timeout)
            else:
                rq = 'none'
            obs.append(out + '/' + rq)
        final = []
        for t in toks:
            try:
                final.append(','.join(Jt(x) for x in (t.username, t.access_token, t.client_token, t.profile.id_, t.profile.name)))
            except Exception as e:
                final.append('raised:%s' % type(e).__name__)
        return 'ok obs=%s final=%s' % (';'.join(obs) or '-', ';'.join(final) or '-')
    finally:
        A.uuid.uuid4 = real_uuid4
        net.remove()


JSON_TEXTS = G.LOAD_TEXTS


def rnd_json_text(rng):
    k = rng.random()
    if k < 0.5:
        t = json.dumps(rnd_jval(rng, 3))
        if rng.random() < 0.4:      # the other accepted spellings
            t = t.replace(', ', rng.choice([',', ' ,\n', ',\t'])).replace(': ', rng.choice([':', ' : ']))
        if rng.random() < 0.2:
            t = json.dumps(rnd_jval(rng, 2), ensure_ascii=False)
        return t
    if k < 0.8:
        t = json.dumps(rnd_jval(rng, 2))
        if t:
            i = rng.randrange(len(t))
            t = rng.choice([t[:i] + t[i + 1:], t[:i] + rng.choice(',:]}"\\ux0 ') + t[i:], t[:i]])
        return t
    return rng.choice(JSON_TEXTS)


def json_expected(text):
    try:
        v = json.loads(text)
    except ValueError:
        return 'err:value'
    if not G.int_json(v):
        return None             # float / lone surrogate: outside the model
    try:
        pairs = json.loads(text, object_pairs_hook=lambda ps: ps)
    except ValueError:
        return None

    def dup(x):
        if isinstance(x, list) and x and all(isinstance(p, tuple) for p in x):
            ks = [p[0] for p in x]
            return len(ks) != len(set(ks)) or any(dup(p[1]) for p in x)
        if isinstance(x, list):
            return any(dup(y) for y in x)
        return False
    if dup(pairs):
        return None
    return 'ok ' + Jt(v)


def cases(n, seed):
    rng = random.Random('c19seq/%s' % seed)
    out = []
    while len(out) < n:
        if rng.random() < 0.6:
            inits, steps = rnd_run(rng)
            out.append((request_line(inits, steps), observe_raw(inits, steps)))
        else:
            t = rnd_json_text(rng)
            try:
                t.encode('utf-8')
            except UnicodeEncodeError:
                continue
            exp = json_expected(t)
            if exp is not None:
                out.append(('c19json ' + S(t), exp))
    return out


if __name__ == '__main__':
    n = int(sys.argv[1]) if len(sys.argv) > 1 else 50
    seed = sys.argv[2] if len(sys.argv) > 2 else '1'
    cs = cases(n, seed)
    if '--check' not in sys.argv:
        sys.stdout.write(''.join(rq + '\t' + exp + '\n' for rq, exp in cs))
        sys.exit(0)
    driver = os.path.join(os.path.dirname(os.path.dirname(HERE)), 'lean', '.lake', 'build', 'bin', 'driver')
    p = subprocess.run([driver], input='\n'.join(rq for rq, _ in cs) + '\n', capture_output=True, text=True, timeout=3000)
    got = p.stdout.split('\n')
    bad = 0
    if len(got) < len(cs):
        bad += len(cs) - len(got)
        print('driver answered only %d of %d requests' % (len(got), len(cs)))
    for (rq, exp), g in zip(cs, got):
        if g != exp:
            bad += 1
            print('DISAGREE\n  request ', rq[:400], '\n  real    ', exp[:600], '\n  model   ', g[:600])
    print('%d cases, %d disagreements%s' % (len(cs), bad, '' if p.returncode == 0 else ' (driver exit %d: %s)' % (
        p.returncode, p.stderr[:300])))
    sys.exit(1 if bad or p.returncode else 0)
