"""Real-code observations for the driver commands `authseq.run` and `c19json`
(lean/PyCraft/Drive/C19Seq.lean).

usage:  /venv/bin/python harness/xcheck/c19seq_xcheck.py <N> <seed>            prints N lines
            `request<TAB>expected reply` (random program runs of the REAL AuthenticationToken observed
            through harness/gen/c19seq.py `observe`, and random JSON texts through the real json module)
        /venv/bin/python harness/xcheck/c19seq_xcheck.py <N> <seed> --check    additionally feeds the
            requests to `PyCraft.Drive.c19seq` (a throw-away Lean main under /tmp, run with
            `lake env lean --run`) and reports every disagreement; exit status 1 if there is one.

Inputs are kept inside the model's stated restrictions: JSON numbers are integers, no lone
surrogates, object keys distinct; `error` / `errorMessage` members of error replies are not lists or
dicts (their `repr` inside the exception text is not modelled; the driver prints `?` there and the
expected reply does the same).
"""
import json
import os
import random
import subprocess
import sys

sys.dont_write_bytecode = True
HERE = os.path.dirname(os.path.abspath(__file__))
sys.path.insert(0, os.path.dirname(HERE))
from gen import c19seq as G          # noqa: E402


def S(s):
    return s.encode('utf-8').hex() or '-'


def Jt(v):
    return S(json.dumps(v))


STR = ['', 'a', 'acc-A', 'x y', '\xe9', 'J\xfcrgen \U0001f600', 'q"u\\o\nte', '\x00\x7f', 'ff00']


def rnd_jval(rng, depth=2):
    k = rng.random()
    if k < 0.35 or depth == 0:
        return rng.choice(STR)
    if k < 0.5:
        return None
    if k < 0.6:
        return rng.choice([True, False])
    if k < 0.75:
        return rng.choice([0, 1, -7, 10 ** 20, 42])
    if k < 0.87:
        return [rnd_jval(rng, depth - 1) for _ in range(rng.randrange(3))]
    keys = rng.sample(['id', 'name', 'k', '', 'error', '\xe9'], rng.randrange(3))
    return {key: rnd_jval(rng, depth - 1) for key in keys}


def rnd_attr(rng):
    k = rng.random()
    if k < 0.55:
        return rng.choice(['alice', 'acc-A', 'cli-A', 'x'])
    if k < 0.75:
        return None
    if k < 0.85:
        return ''
    return rnd_jval(rng, 1)


def rnd_body(rng):
    """-> bytes served"""
    k = rng.random()
    if k < 0.40:
        obj = {}
        for key in ('accessToken', 'clientToken'):
            if rng.random() < 0.85:
                obj[key] = rnd_attr(rng) if rng.random() < 0.4 else key[:3] + '-B'
        if rng.random() < 0.85:
            if rng.random() < 0.75:
                sp = {}
                if rng.random() < 0.85:
                    sp['id'] = rnd_attr(rng) if rng.random() < 0.3 else 'id-B'
                if rng.random() < 0.85:
                    sp['name'] = rnd_attr(rng) if rng.random() < 0.3 else 'B\xf6b'
                obj['selectedProfile'] = sp
            else:
                obj['selectedProfile'] = rnd_jval(rng, 1)
        if rng.random() < 0.3:
            obj['user'] = {'id': 'ignored'}
        return json.dumps(obj).encode()
    if k < 0.62:
        atom = lambda: rng.choice(['ForbiddenOperationException', 'E', '', 'Invalid token', 5, None, True, -3])
        obj = {'error': atom(), 'errorMessage': atom()}
        if rng.random() < 0.5:
            obj['cause'] = rnd_jval(rng, 1)
        return json.dumps(obj).encode()
    if k < 0.72:
        return json.dumps(rng.choice([{'error': 'x'}, {'errorMessage': 'y'}, {}, {'cause': 'z'}])).encode()
    if k < 0.84:
        return rng.choice([b'[]', b'[1, 2]', b'5', b'null', b'true', b'"error errorMessage"', b' {"a" : [ ] } '])
    if k < 0.93:
        return rng.choice([b'<html>Bad Gateway</html>', b'{', b'error', b'{"a":1,}', b'\xc3\xa9'])
    return b''


def rnd_run(rng):
    ntok = rng.randrange(0, 4)
    inits = [tuple(rnd_attr(rng) for _ in range(3)) for _ in range(ntok)]
    steps = []
    for _ in range(rng.randrange(0, 7)):
        i = rng.randrange(0, ntok + 1)
        op = rng.choice(['authenticate', 'refresh', 'validate', 'invalidate', 'join', 'signout'])
        if op == 'authenticate':
            call = (op, i, '%032x' % rng.getrandbits(128), rng.choice(STR), rng.choice(STR), rng.random() < 0.3)
        elif op == 'join':
            call = (op, i, rng.choice(STR))
        elif op == 'signout':
            call = (op, rng.choice(STR), rng.choice(STR))
        else:
            call = (op, i)
        k = rng.random()
        if k < 0.08:
            reply = None
        else:
            status = rng.choice([200, 204, 400, 401, 403, 404, 429, 500, 503]) if rng.random() < 0.6 else \
                rng.choice([200, 200, 204])
            reply = (status, rnd_body(rng))
        steps.append((call, reply))
    return inits, steps


def call_tok(call):
    k = call[0]
    if k == 'authenticate':
        return 'auth:%d:%s:%s:%s:%d' % (call[1], S(call[2]), S(call[3]), S(call[4]), call[5])
    if k == 'join':
        return 'join:%d:%s' % (call[1], S(call[2]))
    if k == 'signout':
        return 'signout:%s:%s' % (S(call[1]), S(call[2]))
    return '%s:%d' % (k, call[1])


def resp_tok(reply):
    if reply is None:
        return 'fail'
    rs = G.reply_as_seen(reply)
    return '%d:%s' % (reply[0], S(rs[1]))


def request_line(inits, steps):
    it = ';'.join(','.join(Jt(x) for x in t) for t in inits) or '-'
    return ' '.join(['authseq.run', it] + ['%s@%s' % (call_tok(c), resp_tok(r)) for c, r in steps])


def observe_raw(inits, steps):
    """Like gen.c19seq.observe, but returns Python values instead of Lean source."""
    A = G._auth()
    import requests
    from minecraft.exceptions import YggdrasilError
    net = G.Net()
    net.install()
    real_uuid4 = A.uuid.uuid4
    try:
        toks = [A.AuthenticationToken(u, a, c) for (u, a, c) in inits]
        obs = []
        for call, reply in steps:
            net.reply, net.log = reply, []
            kind = call[0]
            if kind == 'signout':
                fn = lambda: A.AuthenticationToken.sign_out(call[1], call[2])
            else:
                if call[1] >= len(toks):
                    obs.append('skip')
                    continue
                t = toks[call[1]]
                if kind == 'authenticate':
                    class U(object):
                        hex = call[2]
                    A.uuid.uuid4 = lambda: U
                    fn = lambda: t.authenticate(call[3], call[4], invalidate_previous=call[5])
                elif kind == 'join':
                    fn = lambda: t.join(call[2])
                else:
                    fn = getattr(t, kind)
            try:
                r = fn()
                out = 'ret:1' if r is True else 'ret:none' if r is None else 'ret:0' if r is False else 'ret:%r' % (r,)
            except YggdrasilError as e:
                a0 = e.args[0] if e.args else None
                if isinstance(e.yggdrasil_error, (list, dict)) or isinstance(e.yggdrasil_message, (list, dict)):
                    at = '?'
                else:
                    at = '~' if a0 is None else S(a0)
                out = 'ygg:%s:%s:%s:%s:%s' % ('~' if e.status_code is None else e.status_code,
                                              Jt(e.yggdrasil_error), Jt(e.yggdrasil_message),
                                              Jt(e.yggdrasil_cause), at)
            except requests.ConnectionError:
                out = 'transport'
            except ValueError as e:
                why = {'accessTokenNotSet': 'access', 'clientTokenNotSet': 'client'}.get(
                    G.VALUE_WHY.get(e.args[0] if e.args else None), 'json')
                out = 'value:' + why
            except KeyError as e:
                out = 'key:' + S(e.args[0])
            except TypeError:
                out = 'type'
            except AttributeError:
                out = 'attr'
            if len(net.log) > 1:
                out += '!%d-requests' % len(net.log)
            if net.log:
                method, url, hdrs, body, timeout = net.log[0]
                rq = '%s,%s,%s,%s,%s' % (method, S(url), S(';'.join('%s=%s' % kv for kv in hdrs)), S(body), timeout)
            else:
                rq = 'none'
            obs.append(out + '/' + rq)
        final = [','.join(Jt(x) for x in (t.username, t.access_token, t.client_token, t.profile.id_, t.profile.name))
                 for t in toks]
        return 'ok obs=%s final=%s' % (';'.join(obs) or '-', ';'.join(final) or '-')
    finally:
        A.uuid.uuid4 = real_uuid4
        net.remove()


JSON_TEXTS = G.LOAD_TEXTS


def rnd_json_text(rng):
    k = rng.random()
    if k < 0.5:
        t = json.dumps(rnd_jval(rng, 3))
        if rng.random() < 0.4:      # the other accepted spellings
            t = t.replace(', ', rng.choice([',', ' ,\n', ',\t'])).replace(': ', rng.choice([':', ' : ']))
        if rng.random() < 0.2:
            t = json.dumps(rnd_jval(rng, 2), ensure_ascii=False)
        return t
    if k < 0.8:
        t = json.dumps(rnd_jval(rng, 2))
        if t:
            i = rng.randrange(len(t))
            t = rng.choice([t[:i] + t[i + 1:], t[:i] + rng.choice(',:]}"\\ux0 ') + t[i:], t[:i]])
        return t
    return rng.choice(JSON_TEXTS)


def json_expected(text):
    try:
        v = json.loads(text)
    except ValueError:
        return 'err:value'
    if not G.int_json(v):
        return None             # float / lone surrogate: outside the model
    try:
        pairs = json.loads(text, object_pairs_hook=lambda ps: ps)
    except ValueError:
        return None

    def dup(x):
        if isinstance(x, list) and x and all(isinstance(p, tuple) for p in x):
            ks = [p[0] for p in x]
            return len(ks) != len(set(ks)) or any(dup(p[1]) for p in x)
        if isinstance(x, list):
            return any(dup(y) for y in x)
        return False
    if dup(pairs):
        return None
    return 'ok ' + Jt(v)


def cases(n, seed):
    rng = random.Random(seed)
    out = []
    while len(out) < n:
        if rng.random() < 0.6:
            inits, steps = rnd_run(rng)
            out.append((request_line(inits, steps), observe_raw(inits, steps)))
        else:
            t = rnd_json_text(rng)
            try:
                t.encode('utf-8')
            except UnicodeEncodeError:
                continue
            exp = json_expected(t)
            if exp is not None:
                out.append(('c19json ' + S(t), exp))
    return out


MAIN = '''import PyCraft.Drive.C19Seq
partial def loop (h : IO.FS.Stream) (out : IO.FS.Stream) : IO Unit := do
  let line ← h.getLine
  if line.isEmpty then return ()
  let toks := (line.trimAscii.toString.splitOn " ").filter (· ≠ "")
  out.putStrLn ((PyCraft.Drive.c19seq toks).getD "bad-op")
  loop h out
def main : IO Unit := do loop (← IO.getStdin) (← IO.getStdout)
'''


if __name__ == '__main__':
    n = int(sys.argv[1]) if len(sys.argv) > 1 else 50
    seed = int(sys.argv[2]) if len(sys.argv) > 2 else 1
    cs = cases(n, seed)
    if '--check' not in sys.argv:
        for rq, exp in cs:
            print(rq + '\t' + exp)
        sys.exit(0)
    os.makedirs('/tmp/c19seq_x', exist_ok=True)
    with open('/tmp/c19seq_x/drv.lean', 'w') as f:
        f.write(MAIN)
    p = subprocess.run(['lake', 'env', 'lean', '--run', '/tmp/c19seq_x/drv.lean'], cwd='/verif/lean',
                       input='\n'.join(rq for rq, _ in cs) + '\n', capture_output=True, text=True)
    got = p.stdout.split('\n')
    bad = 0
    if len(got) < len(cs):
        bad += len(cs) - len(got)
        print('driver answered only %d of %d requests' % (len(got), len(cs)))
    for (rq, exp), g in zip(cs, got):
        if g != exp:
            bad += 1
            print('DISAGREE\n  request ', rq[:400], '\n  real    ', exp[:600], '\n  model   ', g[:600])
    print('%d cases, %d disagreements%s' % (len(cs), bad, '' if p.returncode == 0 else ' (lean exit %d: %s)' % (
        p.returncode, p.stderr[:300])))
    sys.exit(1 if bad or p.returncode else 0)
