"""Real-code observations for the driver command `ends.seq` (lean/PyCraft/Drive/C16Ends.lean).

usage:  /venv/bin/python harness/xcheck/c16ends_xcheck.py <N> <seed> [guard=1]
prints N lines `request<TAB>expected reply`; corr/c16.py (`ends_tie`) feeds the requests to the driver.

Runs as a SUBPROCESS because it replaces module globals of minecraft.networking.connection (the socket
module and NetworkingThread.start) for the whole life of the interpreter: a real Connection on a fake
socket module, ONE user thread, the networking threads are created but never run.  guard=1 is the current
code (disconnect flushes inside try/except IOError)."""
import os
import random
import sys
import types

sys.dont_write_bytecode = True
sys.path.insert(0, os.environ.get('PYCRAFT_REPO', '/repo'))
from minecraft.networking import connection as C                      # noqa
from minecraft.networking.packets import serverbound, Packet          # noqa
import socket as real_socket                                          # noqa


class World:
    def __init__(self, servers, fail):
        self.servers, self.fail, self.attempts, self.tick = servers, fail, 0, 0
        self.threads, self.wire = [], []

    def F(self, k):
        if not self.fail:
            return False
        return (self.fail[k] if k < len(self.fail) else self.fail[-1]) == '1'


W = None


class FakeFile:
    def __init__(self):
        self.closed = False

    def close(self):
        self.closed = True


class FakeSocket:
    def __init__(self, *a):
        self.idx, self.connected, self.half = None, False, False

    def connect(self, addr):
        i = W.attempts
        W.attempts += 1
        beh = W.servers[i] if i < len(W.servers) else 'a'
        if beh == 'r':
            raise ConnectionRefusedError(111, 'refused')
        self.idx, self.connected = i, True         # a | d | f: accepted (d/f only matter to a thread that reads)

    def makefile(self, *a):
        return FakeFile()

    def send(self, data):
        if self.half:                              # second send of a packet (the body)
            self.half = False
            return len(data)
        k = W.tick
        W.tick += 1
        if not self.connected or W.F(k):
            raise BrokenPipeError(32, 'Broken pipe')
        self.half = True
        return len(data)

    def shutdown(self, how):
        pass

    def close(self):
        pass


fake = types.SimpleNamespace(
    socket=FakeSocket, getaddrinfo=lambda *a: [(real_socket.AF_INET, 1, 6, '', ('127.0.0.1', 1))],
    AF_INET=real_socket.AF_INET, AF_INET6=real_socket.AF_INET6, SOCK_STREAM=real_socket.SOCK_STREAM,
    SHUT_RDWR=real_socket.SHUT_RDWR, error=OSError)
C.socket = fake
C.NetworkingThread.start = lambda self: W.threads.append(self)


def label(p):
    n = type(p).__name__
    if n == 'HandShakePacket':
        return 0
    if n in ('LoginStartPacket', 'RequestPacket'):
        return 1
    return int(p.message)


def run(servers, fail, ops):
    global W
    W = World(servers, fail)
    conn = C.Connection('h', 1, username='u', allowed_versions={47})
    conn.register_packet_listener(lambda p: W.wire.append((conn.socket.idx, label(p))), Packet, outgoing=True)
    outs = []
    for op in ops:
        try:
            if op == 'c':
                conn.connect()
            elif op == 's':
                conn.status(handle_status=False, handle_ping=False)
            elif op == 'd0':
                conn.disconnect()
            elif op == 'd1':
                conn.disconnect(immediate=True)
            elif op[0] == 'w':
                p = serverbound.play.ChatPacket()
                p.message = op[1:]
                try:
                    conn.write_packet(p)
                except AttributeError:
                    pass
                continue
            elif op == 'q':
                q = getattr(conn, '_outgoing_packet_queue', None)
                if q:
                    q.popleft()
                continue
            outs.append('ok')
        except C.InvalidState:
            outs.append('invalid')
        except ConnectionRefusedError:
            outs.append('refused')
        except OSError:
            outs.append('ioerror')
        except Exception:
            outs.append('other')
    s = conn.socket
    sock = '0' if s is None else ('1' if s.connected else 'u')
    q = getattr(conn, '_outgoing_packet_queue', None)
    qs = 'x' if q is None else (','.join(str(label(p)) for p in q) or '-')
    wire = ','.join('%d:%d' % w for w in W.wire) or '-'
    intr = ''.join('1' if t.interrupt else '0' for t in W.threads) or '-'

    def idx(t):
        return 'x' if t is None else str(W.threads.index(t))
    return 'ok %s sock=%s connected=%d queue=%s wire=%s ticks=%d threads=%d intr=%s nt=%s new=%s' % (
        ','.join(outs) or '-', sock, conn.connected, qs, wire, W.tick, len(W.threads), intr,
        idx(conn.networking_thread), idx(conn.new_networking_thread))


def main():
    N, seed = int(sys.argv[1]), sys.argv[2]
    guard = sys.argv[3] if len(sys.argv) > 3 else '1'
    rnd = random.Random('c16ends/%s' % seed)
    out = []
    for _ in range(N):
        servers = [rnd.choice('aaardf') for _ in range(rnd.randint(0, 4))]
        fail = ''.join(rnd.choice('01') for _ in range(rnd.randint(0, 6)))
        ops = [rnd.choice(['c', 's', 'd0', 'd0', 'd1', 'w5', 'w6', 'w%d' % rnd.randint(2, 40), 'q'])
               for _ in range(rnd.randint(1, 9))]
        req = 'ends.seq guard=%s servers=%s fail=%s %s' % (guard, ','.join(servers) or '-', fail or '-', ' '.join(ops))
        out.append('%s\t%s' % (req, run(servers, fail, ops)))
    sys.stdout.write('\n'.join(out) + '\n')


if __name__ == '__main__':
    main()
