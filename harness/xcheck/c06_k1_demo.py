import sys, socket
sys.path.insert(0, '/repo')
from minecraft.networking import connection as C
from minecraft.networking.connection import ConnectionContext
from minecraft.networking.packets import clientbound, PacketBuffer
from minecraft.networking.types import VarInt
class Opt: compression_enabled = False
class Stub: pass
for pv, cls, kw in ((317, clientbound.play.ChatMessagePacket, dict(json_data='{"text":"hello"}', position=0)),
                    (389, clientbound.play.TimeUpdatePacket, dict(world_age=1, time_of_day=2))):
    ctx = ConnectionContext(protocol_version=pv)
    s = Stub(); s.context = ctx; s.options = Opt()
    r = C.PlayingReactor(s)
    a, b = socket.socketpair()
    p = cls(context=ctx, **kw)
    p.write(a)
    a.close()
    f = b.makefile('rb')
    try:
        q = r.read_packet(f, timeout=1)
        print(pv, 'sent', type(p).__name__, 'id', hex(p.id), '-> decoded as', type(q).__name__, q)
    except Exception as e:
        print(pv, 'sent', type(p).__name__, 'id', hex(p.id), '-> dict has', r.clientbound_packets[p.id].__name__, 'raised', type(e).__name__, e)
