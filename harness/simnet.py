"""Sequential in-process network for pyCraft's `Connection` (DESIGN.md section 4).

The harness rebinds, IN ITS OWN PROCESS, the module-level names through which
`minecraft.networking.connection` reaches the OS: `socket`, `select`, and `NetworkingThread.start /
is_alive / join`.  pyCraft's own function bodies are never replaced: the networking thread's real
`run()` is executed inline by `Net.run_threads()`.  The fake server is *reactive*: its `on_bytes`
callback runs synchronously inside the client's `send`, so a whole conversation is one deterministic
single-threaded execution.

Socket semantics assumed (trusted base): `read(n)` on the unbuffered socket file returns between 1 and
n bytes of the first arrived segment, or b'' at end of stream; `send` is all-or-nothing; `send` after
the peer has closed raises BrokenPipeError (measured behaviour on loopback TCP) when `broken_pipe` is
set.
"""
import types


class Idle(BaseException):
    """The networking thread would wait forever: nothing to read, nothing to write."""


class Stall(BaseException):
    """A blocking read with no data and no end-of-stream (peer stalls without closing)."""


class ReadBudget(BaseException):
    """The client issued more reads than the scenario allows (busy loop)."""


class Pipe:
    """server -> client byte stream as arrival segments"""

    def __init__(self):
        self.segs = []
        self.eof = False

    def feed(self, b, cuts=None):
        b = bytes(b)
        if not b:
            return
        if cuts:
            prev = 0
            for c in sorted(set(c for c in cuts if 0 < c < len(b))):
                self.segs.append(b[prev:c])
                prev = c
            self.segs.append(b[prev:])
        else:
            self.segs.append(b)

    def read(self, n):
        if n == 0:
            return b''
        if not self.segs:
            return b''
        s = self.segs[0]
        if n is None or n < 0 or n >= len(s):
            self.segs.pop(0)
            return s
        self.segs[0] = s[n:]
        return s[:n]

    def pending(self):
        return sum(len(s) for s in self.segs)

    def ready(self):
        return bool(self.segs) or self.eof


class FakeFile:
    def __init__(self, sock):
        self.sock = sock
        self.closed = False

    def read(self, n=-1):
        net = self.sock.net
        if self.closed:
            raise ValueError('I/O operation on closed file')
        net.reads += 1
        if net.read_budget is not None and net.reads > net.read_budget:
            raise ReadBudget()
        inbox = self.sock.inbox
        if not inbox.segs:
            if inbox.eof or self.sock.closed_by_client:
                net.eof_reads += 1
                net.log.append(('read-eof', self.sock.fd))
                return b''
            if n == 0:
                return b''
            raise Stall()
        data = inbox.read(n)
        net.log.append(('read', self.sock.fd, len(data)))
        return data

    def fileno(self):
        return self.sock.fd

    def close(self):
        self.closed = True


class FakeSocket:
    def __init__(self, net, *a):
        self.net = net
        self.inbox = Pipe()
        self.sent = bytearray()
        self.connected = False
        self.closed_by_client = False
        self.fd = 1000 + len(net.sockets)
        self.server = None
        net.sockets.append(self)

    def connect(self, addr):
        net = self.net
        net.connects.append(addr)
        if callable(net.refuse) and net.refuse(len(net.connects) - 1) or net.refuse is True:
            net.log.append(('refused', self.fd))
            raise ConnectionRefusedError(111, 'Connection refused')
        self.connected = True
        self.server = net.server_factory(self)
        net.log.append(('connect', self.fd, addr))

    def makefile(self, mode, buffering=None):
        return FakeFile(self)

    def send(self, data):
        net = self.net
        if not self.connected or self.closed_by_client:
            raise OSError(9, 'Bad file descriptor')
        if self.inbox.eof and net.broken_pipe:
            net.log.append(('epipe', self.fd))
            if getattr(net, 'reset_by_peer', False):      # the other error a write to a closed peer can end in (RST received)
                raise ConnectionResetError(104, 'Connection reset by peer')
            raise BrokenPipeError(32, 'Broken pipe')
        data = bytes(data)
        net.log.append(('send', self.fd, data))
        self.sent += data
        if self.server is not None and not self.inbox.eof:
            self.server.on_bytes(data)
        return len(data)

    def sendall(self, data):          # real sockets have it; the unchanged library never calls it
        self.send(data)

    def recv(self, n):
        return self.inbox.read(n)

    def shutdown(self, how):
        if not self.connected or self.closed_by_client:
            raise OSError(107, 'Transport endpoint is not connected')
        self.net.log.append(('shutdown', self.fd))

    def close(self):
        if not self.closed_by_client:
            self.net.log.append(('close', self.fd))
        self.closed_by_client = True
        if self.server is not None and hasattr(self.server, 'on_close'):
            self.server.on_close()

    def fileno(self):
        return self.fd


class Net:
    """with Net(server_factory) as net: …  — installs and always restores the rebinding."""

    def __init__(self, server_factory, refuse=False, broken_pipe=True, idle_limit=3,
                 read_budget=None, sockets_only=False):
        self.sockets_only = sockets_only     # scheduled mode: threads and select are handled by sched.py
        self.server_factory = server_factory
        self.refuse = refuse
        self.broken_pipe = broken_pipe
        self.idle_limit = idle_limit
        self.read_budget = read_budget
        self.sockets = []
        self.connects = []
        self.log = []
        self.reads = 0
        self.eof_reads = 0
        self.idle = 0
        self.selects = 0
        self.queue = []        # threads started, not yet run
        self.running = []      # stack of threads whose run() is executing
        self.finished = []
        self.thread_errors = []   # exceptions that escaped NetworkingThread.run
        self.stops = []           # (thread, 'idle'|'stall'|'budget')

    def __enter__(self):
        import minecraft.networking.connection as C
        self.C = C
        self.saved = (C.socket, C.select, C.NetworkingThread.start, C.NetworkingThread.is_alive,
                      C.NetworkingThread.join)
        net = self
        real = self.saved[0]
        C.socket = types.SimpleNamespace(
            # like a resolver: a NAME resolves to an address that is not the name (the handshake must still carry the name)
            getaddrinfo=lambda host, port, fam=0, typ=0, *a: [(2, 1, 6, '', (
                host if host.replace('.', '').isdigit() else '192.0.2.%d' % (sum(host.encode()) % 250 + 1), port))],
            socket=lambda *a: FakeSocket(net, *a), AF_INET=2, AF_INET6=10, SOCK_STREAM=1,
            SHUT_RDWR=2, error=OSError, timeout=real.timeout, gaierror=real.gaierror)

        def fake_select(r, w, x, timeout=None):
            net.selects += 1
            for f in r:
                if getattr(f, 'closed', False):
                    raise ValueError('file descriptor cannot be a negative integer (-1)')
            ready = [f for f in r if net._inbox_of(f).ready()]
            if ready:
                net.idle = 0
            else:
                net.idle += 1
                if net.idle > net.idle_limit:
                    raise Idle()
            return ready, [], []
        if not self.sockets_only:
            C.select = types.SimpleNamespace(select=fake_select, error=OSError)
            C.NetworkingThread.start = lambda t: net.queue.append(t)
            C.NetworkingThread.is_alive = lambda t: t in net.running or t in net.queue
            C.NetworkingThread.join = lambda t, timeout=None: None
        self.attached = (C.socket.socket is not real.socket)
        return self

    def __exit__(self, *a):
        C = self.C
        (C.socket, C.select, C.NetworkingThread.start, C.NetworkingThread.is_alive,
         C.NetworkingThread.join) = self.saved
        return False

    @staticmethod
    def _inbox_of(f):
        # plain FakeFile, or pyCraft's EncryptedFileObjectWrapper around one
        inner = getattr(f, 'actual_file_object', f)
        return inner.sock.inbox

    def run_threads(self, limit=50):
        """Run every started networking thread's own run() inline, in start order."""
        n = 0
        while self.queue and n < limit:
            t = self.queue.pop(0)
            self.idle = 0
            self.running.append(t)
            try:
                t.run()
            except Idle:
                self.stops.append((t, 'idle'))
            except Stall:
                self.stops.append((t, 'stall'))
            except ReadBudget:
                self.stops.append((t, 'budget'))
            except Exception as e:       # re-raised from the thread (no handler, no final handler)
                self.thread_errors.append(e)
            finally:
                self.running.pop()
                self.finished.append(t)
            n += 1
        return n

    def sent_on(self, i):
        return bytes(self.sockets[i].sent)
