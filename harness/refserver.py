"""Stand-in Minecraft server for the sequential simnet, built ONLY from refcodec/refproto/rsakeys
(no pyCraft code): it plays the server side of status, login and play conversations from a script
and records every frame the client writes, parsed with the framing mode in force."""
import json
import struct

import refcodec as rc
import refproto as rp
import rsakeys


def f64(x):
    return struct.pack('>d', x)


def f32(x):
    return struct.pack('>f', x)


class RefServer:
    """cfg keys: version (protocol the server speaks / reports), status (see on_status),
    script (list of steps run after LoginStart), rsa ('1024'|'2048'), budget (dict shared across
    connections: {'left': n or None} total server->client bytes before the server stops = closes)."""

    def __init__(self, sock, cfg):
        self.sock = sock
        self.cfg = cfg
        self.state = 'handshake'
        self.buf = bytearray()
        self.frames = []          # (state, id, payload, encrypted, compressed)
        self.handshake = None
        self.compress_in = None   # threshold used to parse client frames
        self.compress_out = None
        self.enc = self.dec = None
        self.script = list(cfg.get('script', []))
        self.waiting_enc = None
        self.secret = None
        self.login_name = None
        self.errors = []
        self.key = getattr(rsakeys, 'RSA_' + cfg.get('rsa', '1024'))
        # login-state ids (stable in every release; the 1.13 snapshots 385..390 shift them: override)
        self.ids = dict(disconnect=0, encreq=1, success=2, compress=3, plugin=4, start=0, encresp=1,
                        plugresp=2)
        self.ids.update(cfg.get('login_ids', {}))
        cfg.setdefault('servers', []).append(self)
        if cfg.get('early_disconnect') is not None:
            # a server (proxy, ban list) that rejects the connection before reading anything: the login
            # disconnect is already in the client's receive buffer when its first write fails
            self.send_packet(self.ids['disconnect'], rc.string(cfg['early_disconnect']))
            self.close()

    # ---------------------------------------------------------------- output
    def emit(self, data):
        if self.sock.inbox.eof:
            return
        if self.enc is not None:
            data = self.enc.update(data)
        b = self.cfg.get('budget')
        if b is not None and b.get('left') is not None:
            if len(data) >= b['left']:
                data = data[:b['left']]
                b['left'] = 0
                self.sock.inbox.feed(data, self.cfg.get('cuts'))
                self.sock.inbox.eof = True
                return
            b['left'] -= len(data)
        srng = self.cfg.get('stream_rng')
        if srng is not None:
            # TCP-like arrival: segment boundaries are unrelated to packet boundaries -- a segment may
            # end inside a frame and carry the start of the next one
            cuts = sorted(srng.sample(range(1, len(data)), min(len(data) - 1, srng.choice([0, 1, 1, 2, 3])))) \
                if len(data) > 1 else []
            segs = self.sock.inbox.segs
            merge = bool(segs) and srng.random() < 0.7
            tail = segs.pop() if merge else b''
            self.sock.inbox.feed(tail + data, [len(tail) + c for c in cuts])
            return
        seg = self.cfg.get('segment')
        if seg:
            cuts = list(range(seg, len(data), seg))
            self.sock.inbox.feed(data, cuts)
        else:
            self.sock.inbox.feed(data)

    def send_packet(self, pid, body):
        self.emit(rc.frame(rc.varint(pid) + body, self.compress_out, ge=True))     # the vanilla server's rule

    def close(self):
        self.sock.inbox.eof = True

    # ---------------------------------------------------------------- input
    def on_bytes(self, data):
        if self.state == 'play' and self.cfg.get('ignore_play_bytes'):
            return          # (the raw bytes are judged by the caller: framing may change in mid-stream)
        if self.dec is not None:
            data = self.dec.update(data)
        self.buf += data
        while True:
            try:
                n, p = rc.read_varint(self.buf, 0)
            except EOFError:
                return
            if p + n > len(self.buf):
                return
            body = bytes(self.buf[p:p + n])
            del self.buf[:p + n]
            compressed = self.compress_in is not None
            if compressed:
                import zlib
                dl, q = rc.read_varint(body, 0)
                body = body[q:]
                if dl:
                    body = zlib.decompress(body)
                    if len(body) != dl:
                        self.errors.append('data length mismatch')
            pid, q = rc.read_varint(body, 0)
            payload = body[q:]
            self.frames.append((self.state, pid, payload, self.dec is not None, compressed))
            try:
                self.handle(pid, payload)
            except Exception as e:       # a malformed client packet: remember, keep serving
                self.errors.append(repr(e))

    def handle(self, pid, payload):
        v = self.cfg['version']
        if self.state == 'handshake':
            proto, p = rc.read_varint(payload, 0)
            host, p = rc.read_string(payload, p)
            port = int.from_bytes(payload[p:p + 2], 'big')
            nxt, _ = rc.read_varint(payload, p + 2)
            self.handshake = {'protocol': proto, 'host': host, 'port': port, 'next': nxt}
            self.state = 'status' if nxt == 1 else 'login'
            if self.state == 'status' and self.cfg.get('status') == 'close-early':
                self.close()
        elif self.state == 'status':
            self.on_status(pid, payload)
        elif self.state == 'login':
            if pid == self.ids['start'] and self.login_name is None:
                self.login_name, _ = rc.read_string(payload, 0)
                self.run_script()
            elif pid == self.ids['encresp'] and self.waiting_enc is not None:
                sl, p = rc.read_varint(payload, 0)
                es = payload[p:p + sl]
                tl, p2 = rc.read_varint(payload, p + sl)
                et = payload[p2:p2 + tl]
                self.secret = rc.rsa_pkcs1v15_decrypt(self.key, es)
                token = rc.rsa_pkcs1v15_decrypt(self.key, et)
                self.token_ok = (token == self.waiting_enc)
                self.waiting_enc = None
                self.enc = rc.CFB8(self.secret, encrypt=True)
                self.dec = rc.CFB8(self.secret, encrypt=False)
                rest = bytes(self.buf)
                self.buf.clear()
                if rest:   # bytes already received after the response are ciphertext
                    self.buf += self.dec.update(rest)
                self.run_script()
        # play state: frames are only recorded; `close_on_play_frame: n` = the server goes away as soon as it has received
        # its n-th play-state frame (the client finds out when it next writes or reads)
        elif self.state == 'play' and self.cfg.get('close_on_play_frame'):
            if len([f for f in self.frames if f[0] == 'play']) >= self.cfg['close_on_play_frame']:
                self.close()

    def on_status(self, pid, payload):
        st = self.cfg.get('status', ('json', json.dumps({'version': {'name': 'x', 'protocol': self.cfg['version']},
                                                      'description': 'ref'})))
        if pid == 0x00:
            if st == 'close':
                self.close()
                return
            self.send_packet(0x00, rc.string(st[1]))
            if self.cfg.get('close_after_status', False):
                self.close()
        elif pid == 0x01:
            self.send_packet(0x01, payload)
            self.close()

    # ---------------------------------------------------------------- login / play script
    def run_script(self):
        v = self.cfg['version']
        while self.script:
            step = self.script.pop(0)
            k = step[0]
            if k == 'compress':
                self.send_packet(self.ids['compress'], rc.varint(step[1] % 2 ** 32 if step[1] < 0 else step[1]))
                self.compress_out = step[1]
                self.compress_in = step[1]
            elif k == 'encrypt':
                sid, token = step[1], step[2]
                self.send_packet(self.ids['encreq'], rc.string(sid) + rc.varint(len(self.key['der'])) + self.key['der']
                                 + rc.varint(len(token)) + token)
                self.waiting_enc = token
                return
            elif k == 'plugin':
                self.send_packet(self.ids['plugin'], rc.varint(step[1]) + rc.string(step[2]) + step[3])
            elif k == 'success':
                u = '12345678-1234-5678-1234-567812345678'
                binary = self.cfg['uuid_binary'] if 'uuid_binary' in self.cfg else \
                    rp.layout('login_success', v)[0][1] == 'uuid'
                body = (bytes.fromhex(u.replace('-', '')) if binary else rc.string(u)) \
                    + rc.string(self.login_name or 'x')
                self.send_packet(self.ids['success'], body)
                self.state = 'play'
            elif k == 'disconnect':
                self.send_packet(self.ids['disconnect'], rc.string(step[1]))
                self.close()
            elif k == 'keepalive':
                wide = rp.layout('keep_alive_cb', v)[0][1] == 'i64'
                body = rc.be(step[1], 8) if wide else rc.varint(step[1])
                self.send_packet(rp.packet_id('keep_alive_cb', v), body)
            elif k == 'poslook':
                x, y, z, yaw, pitch, flags, tid = step[1:8]
                body = f64(x) + f64(y) + f64(z) + f32(yaw) + f32(pitch) + rc.be(flags, 1)
                lay = rp.layout('position_look_cb', v)
                if len(lay) >= 7:
                    body += rc.varint(tid)
                if len(lay) >= 8:
                    body += b'\x00'
                self.send_packet(rp.packet_id('position_look_cb', v), body)
            elif k == 'play_compress':   # the play-state Set Compression of protocol <= 47 (id 0x46): sent in the
                # old framing, every later frame in the new one
                self.send_packet(0x46, rc.varint(step[1]))
                self.compress_out = step[1]
                self.compress_in = step[1]
            elif k == 'raw':          # arbitrary frame: (id, payload bytes)
                self.send_packet(step[1], step[2])
            elif k == 'play_disconnect':
                self.send_packet(rp.packet_id('disconnect_play', v), rc.string(step[1]))
            elif k == 'close':
                self.close()
                return
            else:
                raise ValueError(step)

    def on_close(self):
        pass
