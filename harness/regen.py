#!/venv/bin/python
"""Regenerate every file under lean/PyCraft/Generated (and Ref/Protocol.lean) from /repo's current
working tree.  Run by MANIFEST.setup_cmd and before committing; every check regenerates the tables it
depends on by itself."""
import os
import sys

sys.dont_write_bytecode = True
sys.path.insert(0, os.path.dirname(os.path.abspath(__file__)))
import lib  # noqa
lib.repo_setup()
import extract  # noqa
extract._discover()
extract.run(sorted(extract.GENERATORS))
print('regenerated:', ', '.join(sorted(extract.GENERATORS)))
