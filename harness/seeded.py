#!/usr/bin/env python3
"""Seeded-change management (development tool, not a registered check).

  seeded.py confirm <src-dir> <prop> <name>   verify a candidate change in a scratch worktree outside
        /repo and /verif (tests unchanged vs baseline, demo fails with / passes without the change),
        then store it as /verif/seeded/<name>/ {patch.diff, demo.py, meta.json}
  seeded.py run <name> [tier]                  apply seeded/<name>/patch.diff to /repo, run the check of
        its property, restore /repo (git checkout -- .), record the verdict in meta.json
  seeded.py runall [tier]
"""
import json
import os
import shutil
import subprocess
import sys
import tempfile

V = os.path.dirname(os.path.dirname(os.path.abspath(__file__)))
SEEDED = os.path.join(V, 'seeded')
PY = '/venv/bin/python'
BASE_FAIL = None


def sh(cmd, cwd=None, env=None, timeout=1800):
    p = subprocess.run(cmd, shell=True, cwd=cwd, env=env, capture_output=True, text=True, timeout=timeout)
    return p.returncode, p.stdout + p.stderr


def failing_tests(wt):
    env = dict(os.environ, PYTHONPATH=wt, PYTHONDONTWRITEBYTECODE='1')
    rc, out = sh('%s -m pytest -q -p no:cacheprovider --timeout=900 -rf 2>&1 | grep -E "^(FAILED|ERROR)" | sed "s/ - .*//" | sort' % PY,
                 cwd=wt, env=env)
    rc2, summ = sh('%s -m pytest -q -p no:cacheprovider --timeout=900 2>&1 | tail -1' % PY, cwd=wt, env=env)
    return out.strip().split('\n'), summ.strip()


def confirm(src, prop, name):
    patch = os.path.join(src, 'patch.diff')
    demo = os.path.join(src, 'demo.py')
    notes = os.path.join(src, 'notes.txt')
    wt = tempfile.mkdtemp(prefix='seedwt_', dir='/tmp')
    os.rmdir(wt)
    rc, out = sh('git -C /repo worktree add -q --detach %s HEAD' % wt)
    assert rc == 0, out
    res = {'property': prop, 'name': name}
    try:
        env = dict(os.environ, PYTHONPATH=wt, PYTHONDONTWRITEBYTECODE='1')
        base_fail, base_sum = failing_tests(wt)
        rc, out = sh('%s %s' % (PY, demo), cwd=wt, env=env, timeout=600)
        res['demo_without_change'] = rc
        rc, out = sh('git -C %s apply %s' % (wt, patch))
        assert rc == 0, 'patch does not apply: ' + out
        mut_fail, mut_sum = failing_tests(wt)
        res['tests_baseline'] = base_sum
        res['tests_with_change'] = mut_sum
        res['same_failing_set'] = (mut_fail == base_fail)
        rc, out = sh('%s %s' % (PY, demo), cwd=wt, env=env, timeout=600)
        res['demo_with_change'] = rc
        res['demo_output_with_change'] = out[-600:]
        rc, out = sh('%s -c "import minecraft"' % PY, cwd=wt, env=env)
        res['imports'] = rc == 0
    finally:
        sh('git -C /repo worktree remove --force %s' % wt)
        shutil.rmtree(wt, ignore_errors=True)
    ok = res['demo_without_change'] == 0 and res['demo_with_change'] != 0 and res['same_failing_set'] and res['imports']
    res['confirmed'] = ok
    print(json.dumps(res, indent=1))
    if ok:
        d = os.path.join(SEEDED, name)
        os.makedirs(d, exist_ok=True)
        shutil.copy(patch, os.path.join(d, 'patch.diff'))
        shutil.copy(demo, os.path.join(d, 'demo.py'))
        meta = {'property': prop, 'needs_to_manifest': open(notes).read()[:3000] if os.path.exists(notes) else '',
                'confirmation': {k: res[k] for k in ('tests_baseline', 'tests_with_change', 'same_failing_set',
                                                      'demo_without_change', 'demo_with_change')},
                'what_was_run': 'scratch worktree of /repo HEAD under /tmp (removed afterwards): pytest baseline vs '
                                'with patch (identical failing set), demo.py without (exit 0) and with the patch (non-zero)',
                'source': 'independent sub-agent given only the property text and its own worktree'}
        json.dump(meta, open(os.path.join(d, 'meta.json'), 'w'), indent=1)
    return ok


def run(name, tier='quick', props=None):
    d = os.path.join(SEEDED, name)
    meta = json.load(open(os.path.join(d, 'meta.json')))
    props = props or [meta['property']]
    rc, out = sh('git -C /repo status --porcelain')
    assert out.strip() == '', '/repo is not clean: ' + out
    rc, out = sh('git -C /repo apply %s' % os.path.join(d, 'patch.diff'))
    assert rc == 0, out
    verdicts = {}
    # the evidence files under /verif/evidence describe the UNCHANGED tree: keep them (and the generated
    # Lean tables) as they were; a run against a seeded change must not leave its traces behind
    saved = {}
    for p in props:
        ev = os.path.join(V, 'evidence', p + '.json')
        if os.path.exists(ev):
            saved[ev] = open(ev, 'rb').read()
    try:
        for p in props:
            rc, out = sh('./check %s %s' % (p, tier), cwd=V, timeout=3600)
            line = [l for l in out.split('\n') if l.startswith('VIOLATION')]
            verdicts[p] = {'exit': rc, 'line': line[0] if line else None,
                           'detail': [l for l in out.split('\n') if l.startswith('  ')][:3]}
    finally:
        sh('git -C /repo checkout -- .')
        for ev, data in saved.items():
            open(ev, 'wb').write(data)
        sh('/venv/bin/python harness/regen.py', cwd=V, timeout=600)
    meta.setdefault('detected_by', {})
    for p, v in verdicts.items():
        meta['detected_by'][p + '/' + tier] = v
    json.dump(meta, open(os.path.join(d, 'meta.json'), 'w'), indent=1)
    for p, v in verdicts.items():
        print(name, p, tier, 'exit', v['exit'], v['line'], (v['detail'] or [''])[0][:160])
    return verdicts


if __name__ == '__main__':
    cmd = sys.argv[1]
    if cmd == 'confirm':
        sys.exit(0 if confirm(*sys.argv[2:5]) else 1)
    elif cmd == 'run':
        run(sys.argv[2], sys.argv[3] if len(sys.argv) > 3 else 'quick', sys.argv[4:] or None)
    elif cmd == 'runall':
        for n in sorted(os.listdir(SEEDED)):
            if os.path.exists(os.path.join(SEEDED, n, 'meta.json')):
                run(n, sys.argv[2] if len(sys.argv) > 2 else 'quick')
