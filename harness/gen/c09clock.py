"""Generator for lean/PyCraft/Generated/C09Clock.lean and lean/PyCraft/Generated/C09Names.lean
(property C09: the latency of a plain status query over a real-valued clock; names at construction).

Reads the LIVE code of the pyCraft checkout (`$PYCRAFT_REPO`, default `/repo` when this file sits in
`harness/gen/`, else `/tmp/mut/C09`) and emits

C09Clock.lean  (namespace PyCraft.C09Clock.Generated)
  * pingExpr, pongExpr   — `ast.dump` of the expression assigned to `ping_packet.time` and of the
                           expression bound to `now` in the `"ping"` branch of
                           `StatusReactor.react` (connection.py); "<missing>" / "<ambiguous>" when
                           there is not exactly one such assignment;
  * pingConversion, pongConversion : Conv — each dump recognised as
        truncMillis = int(1000 * timeit.default_timer())
        roundMillis = round(1000 * timeit.default_timer())
        other       = anything else;
  * sameConversion : Bool — the two dumps are equal (and neither is missing);
  * conversion : Conv     — the common recognised conversion (`other` when the sites differ);
  * latencyExpr           — dump of the argument of `self.handle_ping(...)` in the `"ping"` branch;
    latencyIsNowMinusEcho : Bool — it is `now - packet.time`;
  * timerIsPerfCounter, timerMonotonic : Bool — `timeit.default_timer is time.perf_counter` and
    `time.get_clock_info('perf_counter').monotonic` in the running interpreter;
  * latencyRows : List (Nat × Nat × Nat × Nat × Int) — (num0, den0, num1, den1, latency): the REAL
    `StatusReactor.react` (do_ping=True) run with `timeit.default_timer` replaced by a stub that
    returns num0/den0 when the response arrives and num1/den1 when the pong arrives (the pong echoes
    the stamped time); `latency` is what `handle_ping` received.  All readings are dyadic rationals
    n / 2^k with 1000 * n < 2^53, so the binary64 product `1000 * t` is exact and the rows are the
    exact-rational values.

C09Names.lean  (namespace PyCraft.C09Clock.Generated)
  * supportedNames, knownNames : List (String × Nat) — items of SUPPORTED_MINECRAFT_VERSIONS and
    KNOWN_MINECRAFT_VERSIONS in iteration order;
  * supportedProtocols, knownOrder : List Nat — SUPPORTED_PROTOCOL_VERSIONS, KNOWN_PROTOCOL_VERSIONS;
  * sharedNames : List (String × Nat) — every known-but-unsupported name whose protocol number is a
    supported protocol (the names a lookup in the KNOWN table would wrongly accept);
  * supportedTags, sharedTags : List (List Nat) — the UTF-8 bytes of the names of `supportedNames`
    and of `sharedNames`, in the same order (lets Lean compare names as lists of numbers, which its
    kernel does faster than comparing strings);
  * lookupDict : String, lookup : Lookup — the name of the dict whose `.get` is called in the nested
    `proto_version` of `Connection.__init__` (`supported` = SUPPORTED_MINECRAFT_VERSIONS, `known` =
    KNOWN_MINECRAFT_VERSIONS, `other`), "<missing>" / "<ambiguous>" unless there is exactly one;
  * membershipList : String, membershipIsSupportedProtocols : Bool — the right operand of the
    `not in` test of `proto_version`;
  * lookupDictIsModuleTable : Bool — in the namespace of connection.py that name is bound to the
    very dict object `minecraft.<name>`;
  * ctorRows : List (String × Option Nat) — the REAL `Connection('localhost', 25565,
    initial_version=name)` for the first two and last two shared names and every 32nd known name:
    `some default_proto_version`, or `none` when the constructor raised ValueError.

`generate()` -> [(path relative to the lean project, Lean source text)].
"""
import ast
import inspect
import os
import sys
import textwrap
from fractions import Fraction

REL_CLOCK = 'PyCraft/Generated/C09Clock.lean'
REL_NAMES = 'PyCraft/Generated/C09Names.lean'

_HERE = os.path.dirname(os.path.abspath(__file__))
_DEFAULT_REPO = '/repo' if os.path.basename(_HERE) == 'gen' else '/tmp/mut/C09'

MISSING = '<missing>'
AMBIGUOUS = '<ambiguous>'

TRUNC_SRC = 'int(1000 * timeit.default_timer())'
ROUND_SRC = 'round(1000 * timeit.default_timer())'
LATENCY_SRC = 'now - packet.time'


def _minecraft():
    if 'minecraft' not in sys.modules:
        repo = os.environ.get('PYCRAFT_REPO', _DEFAULT_REPO)
        if repo not in sys.path:
            sys.path.insert(0, repo)
    import minecraft
    return minecraft


def _dump_src(src):
    return ast.dump(ast.parse(src, mode='eval').body)


def _one(nodes):
    """the dump of the single node, or a marker"""
    if not nodes:
        return MISSING
    if len(nodes) > 1:
        return AMBIGUOUS
    return ast.dump(nodes[0])


def _find_def(tree, path):
    """FunctionDef/ClassDef reached by following `path` through nested bodies"""
    node = tree
    for name in path:
        found = [n for n in ast.walk(node)
                 if isinstance(n, (ast.FunctionDef, ast.ClassDef)) and n.name == name and n is not node]
        if not found:
            return None
        node = found[0]
    return node


def _is_ping_test(test):
    """`packet.packet_name == "ping"`"""
    return (isinstance(test, ast.Compare) and len(test.ops) == 1 and isinstance(test.ops[0], ast.Eq)
            and isinstance(test.left, ast.Attribute) and test.left.attr == 'packet_name'
            and len(test.comparators) == 1 and isinstance(test.comparators[0], ast.Constant)
            and test.comparators[0].value == 'ping')


def clock_sites(module_source):
    """(pingExpr, pongExpr, latencyExpr) dumps from the source text of connection.py"""
    tree = ast.parse(module_source)
    react = _find_def(tree, ['StatusReactor', 'react'])
    if react is None:
        return MISSING, MISSING, MISSING
    ping_values = []
    for n in ast.walk(react):
        if isinstance(n, ast.Assign):
            for tgt in n.targets:
                if isinstance(tgt, ast.Attribute) and tgt.attr == 'time':
                    ping_values.append(n.value)
    pong_values, latency_args = [], []
    for n in ast.walk(react):
        if isinstance(n, ast.If) and _is_ping_test(n.test):
            for body_stmt in n.body:
                for m in ast.walk(body_stmt):
                    if isinstance(m, ast.Assign) and any(
                            isinstance(t, ast.Name) and t.id == 'now' for t in m.targets):
                        pong_values.append(m.value)
                    if (isinstance(m, ast.Call) and isinstance(m.func, ast.Attribute)
                            and m.func.attr == 'handle_ping'):
                        if len(m.args) == 1 and not m.keywords:
                            latency_args.append(m.args[0])
                        else:
                            latency_args.append(m)
    return _one(ping_values), _one(pong_values), _one(latency_args)


def classify(dump):
    if dump == _dump_src(TRUNC_SRC):
        return 'truncMillis'
    if dump == _dump_src(ROUND_SRC):
        return 'roundMillis'
    return 'other'


def lookup_site(module_source):
    """(name of the dict whose .get is called, right operand of the `not in` test) in proto_version"""
    tree = ast.parse(module_source)
    fn = _find_def(tree, ['Connection', '__init__', 'proto_version'])
    if fn is None:
        return MISSING, MISSING
    dicts, members = [], []
    for n in ast.walk(fn):
        if isinstance(n, ast.Call) and isinstance(n.func, ast.Attribute) and n.func.attr == 'get':
            v = n.func.value
            dicts.append(v.id if isinstance(v, ast.Name) else ast.dump(v))
        if isinstance(n, ast.Compare) and len(n.ops) == 1 and isinstance(n.ops[0], ast.NotIn):
            c = n.comparators[0]
            members.append(c.id if isinstance(c, ast.Name) else ast.dump(c))

    def one(l):
        return MISSING if not l else (AMBIGUOUS if len(l) > 1 else l[0])
    return one(dicts), one(members)


# (num0, den0, num1, den1): dyadic readings, seconds
LATENCY_READINGS = [
    (0, 1, 0, 1),
    (3, 4096, 7, 8192),            # 0.732 ms -> 0.854 ms: same millisecond, upper half
    (1, 4096, 3, 4096),            # 0.244 ms -> 0.732 ms: same millisecond, lower -> upper half
    (3, 4096, 5, 4096),            # 0.732 ms -> 1.221 ms: one boundary crossed
    (1, 2048, 1, 2048),            # 0.488 ms twice
    (1234567, 1024, 1234567, 1024),
    (1234567, 1024, 1234568, 1024),
    (5, 1, 21, 4),                 # 5 s -> 5.25 s
    (123456789, 65536, 123460000, 65536),
    (7, 8192, 1, 1),
    (99999, 128, 100001, 128),
    (1, 1, 4097, 4096),            # 1000 ms -> 1000.244 ms
    (4099, 4096, 4100, 4096),      # 1000.732 ms -> 1000.977 ms
]


def latency_rows():
    _minecraft()
    from minecraft.networking import connection as cmod

    class Timer(object):
        def __init__(self):
            self.value = 0.0

        def default_timer(self):
            return self.value

    class FakeConn(object):
        def __init__(self):
            self.written, self.disconnects = [], 0
            self.context = cmod.ConnectionContext(
                protocol_version=max(_minecraft().SUPPORTED_PROTOCOL_VERSIONS))

        def write_packet(self, packet, *a, **k):
            self.written.append(packet)

        def disconnect(self, *a, **k):
            self.disconnects += 1

    class Pkt(object):
        def __init__(self, **kw):
            self.__dict__.update(kw)

    rows = []
    timer = Timer()
    saved = cmod.timeit
    cmod.timeit = timer
    try:
        for (n0, d0, n1, d1) in LATENCY_READINGS:
            for n, d in ((n0, d0), (n1, d1)):
                assert d & (d - 1) == 0 and 1000 * n < 2 ** 53
                assert Fraction(1000 * (n / d)) == 1000 * Fraction(n, d)
            got = []
            conn = FakeConn()
            reactor = cmod.StatusReactor(conn, do_ping=True)
            reactor.handle_status = lambda status: None
            reactor.handle_ping = got.append
            timer.value = n0 / d0
            reactor.react(Pkt(packet_name='response', json_response='{}'))
            assert len(conn.written) == 1
            timer.value = n1 / d1
            reactor.react(Pkt(packet_name='ping', time=conn.written[0].time))
            assert len(got) == 1 and isinstance(got[0], int)
            rows.append((n0, d0, n1, d1, got[0]))
    finally:
        cmod.timeit = saved
    return rows


def name_tables():
    mc = _minecraft()
    from minecraft.networking import connection as cmod
    supported = list(mc.SUPPORTED_MINECRAFT_VERSIONS.items())
    known = list(mc.KNOWN_MINECRAFT_VERSIONS.items())
    sup_protos = list(mc.SUPPORTED_PROTOCOL_VERSIONS)
    known_order = list(mc.KNOWN_PROTOCOL_VERSIONS)
    shared = [(k, v) for (k, v) in known
              if k not in mc.SUPPORTED_MINECRAFT_VERSIONS and v in sup_protos]
    probe = [k for (k, _) in shared[:2] + shared[-2:]] + \
        [k for (i, (k, _)) in enumerate(known) if i % 32 == 0]
    seen, rows = set(), []
    for name in probe:
        if name in seen:
            continue
        seen.add(name)
        try:
            conn = cmod.Connection('localhost', 25565, initial_version=name)
            rows.append((name, conn.default_proto_version))
        except ValueError:
            rows.append((name, None))
    return supported, known, sup_protos, known_order, shared, rows


def lstr(s):
    out = ['"']
    for ch in s:
        o = ord(ch)
        if ch == '"':
            out.append('\\"')
        elif ch == '\\':
            out.append('\\\\')
        elif ch == '\n':
            out.append('\\n')
        elif 32 <= o < 127:
            out.append(ch)
        elif o < 0x10000:
            out.append('\\u%04x' % o)
        else:
            raise ValueError('character outside the BMP in a generated string: %r' % ch)
    out.append('"')
    return ''.join(out)


def lbool(b):
    return 'true' if b else 'false'


def lint(n):
    return '(%d)' % n if n < 0 else '%d' % n


def _pairs(items, per_line=4):
    cells = ['(%s, %d)' % (lstr(k), v) for (k, v) in items]
    lines = [', '.join(cells[i:i + per_line]) for i in range(0, len(cells), per_line)]
    return '[\n  ' + ',\n  '.join(lines) + ']' if cells else '[]'


def _tags(names, per_line=3):
    cells = ['[%s]' % ', '.join('%d' % b for b in n.encode('utf-8')) for n in names]
    lines = [', '.join(cells[i:i + per_line]) for i in range(0, len(cells), per_line)]
    return '[\n  ' + ',\n  '.join(lines) + ']' if cells else '[]'


def _nats(items, per_line=20):
    cells = ['%d' % v for v in items]
    lines = [', '.join(cells[i:i + per_line]) for i in range(0, len(cells), per_line)]
    return '[\n  ' + ',\n  '.join(lines) + ']' if cells else '[]'


def clock_text():
    import time
    import timeit
    _minecraft()
    from minecraft.networking import connection as cmod
    src = inspect.getsource(cmod)
    ping, pong, lat = clock_sites(src)
    ok = ping not in (MISSING, AMBIGUOUS) and pong not in (MISSING, AMBIGUOUS)
    same = ok and ping == pong
    cping, cpong = classify(ping), classify(pong)
    conv = cping if same else 'other'
    rows = latency_rows()
    row_cells = ['(%d, %d, %d, %d, %s)' % (a, b, c, d, lint(l)) for (a, b, c, d, l) in rows]
    return textwrap.dedent('''\
        /- GENERATED by harness/gen/c09clock.py from the live code of the pyCraft checkout. Do not edit.
           The two clock-to-milliseconds conversion sites of `StatusReactor.react` (connection.py) as
           `ast.dump` text, their classification, and the real `react` run on dyadic clock readings.
           Field meanings: see the docstring of the generator. -/
        import PyCraft.Model.C09Clock
        namespace PyCraft.C09Clock.Generated
        open PyCraft.C09Clock

        def pingExpr : String := {ping}

        def pongExpr : String := {pong}

        def pingConversion : Conv := .{cping}

        def pongConversion : Conv := .{cpong}

        def sameConversion : Bool := {same}

        def conversion : Conv := .{conv}

        def latencyExpr : String := {lat}

        def latencyIsNowMinusEcho : Bool := {latok}

        def timerIsPerfCounter : Bool := {perf}

        def timerMonotonic : Bool := {mono}

        def latencyRows : List (Nat × Nat × Nat × Nat × Int) := [
          {rows}]

        end PyCraft.C09Clock.Generated
        ''').format(
        ping=lstr(ping), pong=lstr(pong), cping=cping, cpong=cpong, same=lbool(same), conv=conv,
        lat=lstr(lat), latok=lbool(lat == _dump_src(LATENCY_SRC)),
        perf=lbool(timeit.default_timer is time.perf_counter),
        mono=lbool(bool(time.get_clock_info('perf_counter').monotonic)),
        rows=',\n  '.join(row_cells))


def names_text():
    mc = _minecraft()
    from minecraft.networking import connection as cmod
    src = inspect.getsource(cmod)
    dict_name, member_name = lookup_site(src)
    lookup = {'SUPPORTED_MINECRAFT_VERSIONS': 'supported',
              'KNOWN_MINECRAFT_VERSIONS': 'known'}.get(dict_name, 'other')
    is_module_table = (dict_name.isidentifier() and hasattr(mc, dict_name)
                       and getattr(cmod, dict_name, None) is getattr(mc, dict_name))
    supported, known, sup_protos, known_order, shared, rows = name_tables()
    row_cells = ['(%s, %s)' % (lstr(k), 'none' if v is None else 'some %d' % v) for (k, v) in rows]
    row_lines = [', '.join(row_cells[i:i + 4]) for i in range(0, len(row_cells), 4)]
    return textwrap.dedent('''\
        /- GENERATED by harness/gen/c09clock.py from the live code of the pyCraft checkout. Do not edit.
           The name tables `Connection.__init__` can see, the known-but-unsupported names that share
           their protocol number with a supported version, which dict the nested `proto_version`
           looks names up in, and the real constructor run on a sample of names.
           Field meanings: see the docstring of the generator. -/
        import PyCraft.Model.C09Clock
        namespace PyCraft.C09Clock.Generated
        open PyCraft.C09Clock

        def supportedNames : List (String × Nat) := {supported}

        def knownNames : List (String × Nat) := {known}

        def supportedProtocols : List Nat := {sup_protos}

        def knownOrder : List Nat := {known_order}

        def sharedNames : List (String × Nat) := {shared}

        def supportedTags : List (List Nat) := {sup_tags}

        def sharedTags : List (List Nat) := {shared_tags}

        def lookupDict : String := {dict_name}

        def lookup : Lookup := .{lookup}

        def membershipList : String := {member_name}

        def membershipIsSupportedProtocols : Bool := {member_ok}

        def lookupDictIsModuleTable : Bool := {is_module_table}

        def ctorRows : List (String × Option Nat) := [
          {rows}]

        end PyCraft.C09Clock.Generated
        ''').format(
        supported=_pairs(supported), known=_pairs(known), sup_protos=_nats(sup_protos),
        known_order=_nats(known_order), shared=_pairs(shared),
        sup_tags=_tags([k for (k, _) in supported]), shared_tags=_tags([k for (k, _) in shared]), dict_name=lstr(dict_name),
        lookup=lookup, member_name=lstr(member_name),
        member_ok=lbool(member_name == 'SUPPORTED_PROTOCOL_VERSIONS'),
        is_module_table=lbool(is_module_table), rows=',\n  '.join(row_lines))


def generate():
    return [(REL_CLOCK, clock_text()), (REL_NAMES, names_text())]


if __name__ == '__main__':
    # stand-alone: next to the lean project files; under harness/gen/: the sibling `lean` project
    default_root = (os.path.join(os.path.dirname(os.path.dirname(_HERE)), 'lean')
                    if os.path.basename(_HERE) == 'gen' else _HERE)
    root = sys.argv[1] if len(sys.argv) > 1 else default_root
    for rel, text in generate():
        path = os.path.join(root, rel)
        with open(path, 'w') as f:
            f.write(text)
        print('wrote', path)
