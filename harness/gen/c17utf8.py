"""Generator for lean/PyCraft/Generated/C17Utf8.lean (property C17, audit gap 24).

Evaluates the LIVE code of /repo and tabulates

  * encRows  — `server_id.encode('utf-8')` for server ids given by their code points (boundary
               code points of every UTF-8 length class, non-ASCII text, lone surrogates): the bytes,
               or `none` when Python raises (UnicodeEncodeError);
  * hashRows — `minecraft.networking.encryption.generate_verification_hash(server_id, secret, key)`
               on (server id, secret, key) triples: the three published vectors, non-ASCII ids with
               a 16-byte secret and real 162- / 294-byte DER keys, and triples whose total hashed
               length sits on the SHA-1 padding boundaries (55, 56, 63, 64, 65, 119, 120); the
               returned string, or `none` when the call raises;
  * shaRows  — `encryption.sha1(b'a' * n).hexdigest()` (the very `sha1` name the module imported) for
               lengths n = 55, 56, 64, 112 (block boundaries) and n = 198 (a realistic login input);
  * joinRows — the LIVE `LoginReactor.react` (connection.py) run on an encryption request with
               `os.urandom` replaced by a fixed stub and `connection.auth_token` by a recorder: the
               list of strings passed to `auth_token.join`.

The Lean theorems `live_*` in `Props/C17Utf8.lean` say that the model reproduces every row.

`generate()` -> [(path relative to /verif/lean, Lean source text)].
"""
import os
import sys

REL = 'PyCraft/Generated/C17Utf8.lean'
HARNESS = os.path.dirname(os.path.dirname(os.path.abspath(__file__)))


def _minecraft():
    if 'minecraft' not in sys.modules:
        repo = os.environ.get('PYCRAFT_REPO', '/repo')
        if repo not in sys.path:
            sys.path.insert(0, repo)
    import minecraft
    return minecraft


def _rsakeys():
    if HARNESS not in sys.path:
        sys.path.insert(0, HARNESS)
    import rsakeys
    return rsakeys


def stub(i, n=16):
    """what the i-th call of the stubbed os.urandom returns"""
    return bytes((41 * i + 7 * j + 3) % 256 for j in range(n))


def _fill(seed, n):
    return bytes((seed * 31 + 17 * j + 5) % 256 for j in range(n))


def _s(cps):
    return ''.join(chr(c) for c in cps)


def _cps(s):
    return [ord(c) for c in s]


ENC_IDS = [
    [],
    _cps('Notch'),
    [0x7F], [0x80], [0x7FF], [0x800], [0xD7FF], [0xE000], [0xFFFF], [0x10000], [0x10FFFF],
    _cps('Nötch€\U0001F600'),
    _cps('Живой 世界'),
    [0x41, 0xD800],
    [0xDFFF],
    [0xD83D, 0xDE00],          # a surrogate PAIR spelled as two code points is not U+1F600
    [0x61, 0xDBFF, 0x62],
]

SHA_LENGTHS = [55, 56, 64, 112, 198]


def tables():
    _minecraft()
    rsakeys = _rsakeys()
    from minecraft.networking import encryption

    enc = []
    for cps in ENC_IDS:
        try:
            enc.append((cps, _s(cps).encode('utf-8')))
        except UnicodeEncodeError:
            enc.append((cps, None))

    der1, der2 = rsakeys.RSA_1024['der'], rsakeys.RSA_2048['der']
    triples = [
        (_cps('Notch'), b'', b''),
        (_cps('jeb_'), b'', b''),
        (_cps('simon'), b'', b''),
        ([], stub(0), der1),
        (_cps('0123456789abcdef0123'), stub(1), der1),           # 20 + 16 + 162 = 198 bytes
        (_cps('Nötch€\U0001F600'), stub(2), der1),
        (_cps('世界'), stub(3), der2),
        ([0x7FF, 0x800, 0xFFFF, 0x10000], b'\x00' * 16, b'\xff'),
    ]
    # total hashed length on the padding boundaries: id = U+20AC (3 bytes), 16-byte secret
    for k, total in enumerate([55, 56, 63, 64, 65, 119, 120]):
        triples.append(([0x20AC], stub(4 + k), _fill(k, total - 19)))
    triples += [([0x41, 0xD800], stub(11), der1), ([0xDFFF], b'', b'')]
    hashes = []
    for cps, secret, key in triples:
        try:
            hashes.append((cps, secret, key, encryption.generate_verification_hash(_s(cps), secret, key)))
        except UnicodeEncodeError:
            hashes.append((cps, secret, key, None))

    shas = [(n, encryption.sha1(b'a' * n).hexdigest()) for n in SHA_LENGTHS]

    joins = _joins(rsakeys)
    return enc, hashes, shas, joins


class _Sink(object):
    def __init__(self):
        self.sent = []

    def send(self, d):
        self.sent.append(bytes(d))
        return len(d)

    def recv(self, n):
        return b''

    def read(self, n):
        return b''

    def fileno(self):
        return -1

    def close(self):
        pass

    def shutdown(self, *a, **k):
        pass


class _Token(object):
    def __init__(self):
        self.joined = []

    def join(self, server_id):
        self.joined.append(server_id)
        return True


def _joins(rsakeys):
    import collections
    from minecraft.networking.connection import Connection, LoginReactor
    from minecraft.networking.packets import clientbound

    plan = [
        (_cps('Nötch€\U0001F600'), True, rsakeys.RSA_1024, 47),
        ([], True, rsakeys.RSA_1024, 754),
        (_cps('-'), True, rsakeys.RSA_1024, 340),
        (_cps('--'), True, rsakeys.RSA_1024, 340),
        (_cps('世界'), False, rsakeys.RSA_2048, 578),
    ]
    out = []
    real_urandom = os.urandom
    try:
        for i, (cps, has_token, key, proto) in enumerate(plan):
            draws = []

            def fake(n, i=i, draws=draws):
                draws.append(n)
                return stub(100 + i, n)
            os.urandom = fake
            conn = Connection('localhost', 1, initial_version=proto)
            conn.context.protocol_version = proto
            conn.socket, conn.file_object = _Sink(), _Sink()
            conn.options.compression_enabled = False
            conn._outgoing_packet_queue = collections.deque()
            conn.reactor = LoginReactor(conn)
            tok = _Token() if has_token else None
            conn.auth_token = tok
            p = clientbound.login.EncryptionRequestPacket()
            p.context = conn.context
            p.server_id = _s(cps)
            p.public_key = key['der']
            p.verify_token = _fill(50 + i, 4)
            conn._react(p)
            os.urandom = real_urandom
            assert draws == [16], draws
            out.append((cps, stub(100 + i), key['der'], p.verify_token, has_token,
                        list(tok.joined) if tok is not None else []))
    finally:
        os.urandom = real_urandom
    return out


def _hexs(b):
    return '[' + ', '.join('0x%02x' % x for x in b) + ']'


def _bytes(b, indent='       '):
    if len(b) <= 20:
        return _hexs(b)
    lines = [', '.join('0x%02x' % x for x in b[i:i + 20]) for i in range(0, len(b), 20)]
    return '[' + (',\n' + indent).join(lines) + ']'


def _nats(cps):
    return '[' + ', '.join('0x%x' % c for c in cps) + ']'


def _opt(x, f):
    return 'none' if x is None else 'some ' + f(x)


def _str(s):
    assert all(c in '-0123456789abcdef' for c in s), s
    return '"%s"' % s


def generate():
    enc, hashes, shas, joins = tables()
    out = [
        '/- GENERATED by harness/gen/c17utf8.py from the live code of /repo. Do not edit.',
        '   Server ids are given by their code points (`cps`).',
        '   encRows:  `str.encode(\'utf-8\')` of the id; `none` = UnicodeEncodeError.',
        '   hashRows: `encryption.generate_verification_hash(id, secret, key)`; `none` = it raised.',
        '   shaRows:  (n, `encryption.sha1(b\'a\' * n).hexdigest()`).',
        '   joinRows: the strings the live `LoginReactor.react` passed to `auth_token.join` for one',
        '             encryption request (id, key, token) with `os.urandom(16)` stubbed to `secret`. -/',
        'namespace PyCraft.Gen.C17Utf8',
        '',
        'structure EncRow where',
        '  cps : List Nat',
        '  utf8 : Option (List UInt8)',
        '',
        'structure HashRow where',
        '  cps : List Nat',
        '  secret : List UInt8',
        '  key : List UInt8',
        '  hash : Option String',
        '',
        'structure JoinRow where',
        '  cps : List Nat',
        '  secret : List UInt8',
        '  key : List UInt8',
        '  token : List UInt8',
        '  hasToken : Bool',
        '  joins : List String',
        '',
        'def encRows : List EncRow := [',
        ',\n'.join('  ⟨%s, %s⟩' % (_nats(c), _opt(b, lambda b: '(%s)' % _hexs(b))) for c, b in enc),
        ']',
        '',
    ]
    # hash rows in chunks of 5 (each a separate definition, so that each `decide +kernel` stays small)
    chunks = [hashes[i:i + 5] for i in range(0, len(hashes), 5)]
    for ci, ch in enumerate(chunks):
        out.append('def hashRows%d : List HashRow := [' % ci)
        out.append(',\n'.join(
            '  ⟨%s,\n   %s,\n   %s,\n   %s⟩' % (_nats(c), _bytes(s), _bytes(k), _opt(h, _str))
            for c, s, k, h in ch))
        out += [']', '']
    out.append('def hashRows : List HashRow := %s' % ' ++ '.join('hashRows%d' % i for i in range(len(chunks))))
    out += ['',
            'def shaRows : List (Nat × String) := [',
            ',\n'.join('  (%d, %s)' % (n, _str(d)) for n, d in shas),
            ']',
            '',
            'def joinRows : List JoinRow := [',
            ',\n'.join('  ⟨%s,\n   %s,\n   %s,\n   %s, %s,\n   [%s]⟩' % (
                _nats(c), _bytes(s), _bytes(k), _hexs(t), 'true' if ht else 'false',
                ', '.join(_str(j) for j in js)) for c, s, k, t, ht, js in joins),
            ']',
            '',
            'end PyCraft.Gen.C17Utf8',
            '']
    return [(REL, '\n'.join(out))]


if __name__ == '__main__':
    for rel, text in generate():
        path = os.path.join(os.path.dirname(HARNESS), 'lean', rel)
        old = open(path).read() if os.path.exists(path) else None
        if old != text:
            os.makedirs(os.path.dirname(path), exist_ok=True)
            with open(path, 'w') as f:
                f.write(text)
        print(path)
