"""Generator for PyCraft/Generated/C20Maps.lean (property C20, map tracker; audit item 15).

Evaluates the LIVE `MapPacket.Map` constructor and `MapPacket.apply_to_map_set` of the repo:

* `freshMap`: what `MapPacket.Map(5)` looks like (id, scale, icons, width, height, number of
  pixels, the non-zero pixels as runs, is_tracking_position, is_locked);
* `scenarios`: a handful of packet histories applied, in order and with no `try`, to a
  `MapSet(...)` of zero or more pre-made maps `Map(id, width=w, height=h)`; recorded: the class name of the exception that ended the history (if any) and the map
  set as it then is (dict order; per map the fields and the non-zero pixels).  The histories include
  in-range patches, the exception path (IndexError / ZeroDivisionError on a fresh and on a known
  map) and the silently-wrapping cases (negative offset, row overflow, more pixels than
  width*height).

Only plain data is emitted (no imports on the Lean side); `Props/C20Maps.lean` converts it to the
model's types and proves by `decide +kernel` that the model does the same.

    generate() -> [(path relative to /verif/lean, Lean source text)]
    python harness/gen/c20maps.py     writes the file(s)
"""
import os
import sys

REPO = os.environ.get('PYCRAFT_REPO', '/repo')
if REPO not in sys.path:
    sys.path.insert(0, REPO)
sys.dont_write_bytecode = True

REL = 'PyCraft/Generated/C20Maps.lean'


def _lean_str(s):
    out = []
    for ch in s:
        o = ord(ch)
        if ch == '"':
            out.append('\\"')
        elif ch == '\\':
            out.append('\\\\')
        elif 32 <= o < 127:
            out.append(ch)
        else:
            out.append('\\u{%x}' % o)
    return '"' + ''.join(out) + '"'


def _opt(v, f=str):
    return 'none' if v is None else '(some %s)' % f(v)


def _int(v):
    return str(int(v)) if v >= 0 else '(%d)' % int(v)


def _bool(b):
    return 'true' if b else 'false'


def _icon(ic):
    return '(%s, %s, %s, %s, %s)' % (_int(ic.type), _int(ic.direction), _int(ic.location[0]),
                                     _int(ic.location[1]), _opt(ic.display_name, _lean_str))


def _icons(icons):
    return '[' + ', '.join(_icon(ic) for ic in icons) + ']'


def _packet(p):
    off = p.offset if p.offset is not None else (0, 0)
    px = None if p.pixels is None else '[' + ', '.join(str(b) for b in bytes(p.pixels)) + ']'
    return '(%s, %s, %s, %d, %d, %s, %s, %s, %s, %s)' % (
        _int(p.map_id), _int(p.scale), _icons(p.icons), p.width, p.height, _int(off[0]),
        _int(off[1]), _opt(px), _bool(p.is_tracking_position), _bool(p.is_locked))


def _runs(px):
    """maximal runs (start, count, value) of equal consecutive non-zero pixels"""
    out = []
    for i, b in enumerate(px):
        if not b:
            continue
        if out and out[-1][0] + out[-1][1] == i and out[-1][2] == b:
            out[-1] = (out[-1][0], out[-1][1] + 1, b)
        else:
            out.append((i, 1, b))
    return out


def _obs(key, m):
    nz = _runs(bytes(m.pixels))
    return '(%s, %s, %s, %s, %d, %d, %d, [%s], %s, %s)' % (
        _int(key), _opt(m.id, _int), _opt(m.scale, _int), _icons(m.icons), m.width, m.height,
        len(m.pixels), ', '.join('(%d, %d, %d)' % t for t in nz), _bool(m.is_tracking_position),
        _bool(m.is_locked))


def _scenarios(MP, ctx):
    """(title, initial maps [(id, width, height)] built by Map(id, width=, height=), history).
    Kernel evaluation of a 128*128 list costs seconds per traversal on the Lean side, so only two
    scenarios create fresh (128x128) maps, with at most one pixel write; everything else runs on
    small pre-made maps (`apply_to_map` never looks at the size except through `map.width`)."""
    Icon = MP.MapIcon

    def mk(map_id, scale=0, icons=(), width=0, height=0, off=None, px=None, tr=True, lk=False):
        p = MP(ctx)
        p.map_id, p.scale, p.icons = map_id, scale, list(icons)
        p.width, p.height, p.offset = width, height, off
        p.pixels = None if px is None else bytearray(px)
        p.is_tracking_position, p.is_locked = tr, lk
        return p

    return [
        ('fresh 128x128 map: last cell written, then a pixel-less update; a known small map', [(9, 4, 3)], [
            mk(3, 1, [Icon(1, 2, (3, -4), 'a'), Icon(0, 15, (-128, 127))], 1, 1, (127, 127), [13],
               False, True),
            mk(9, -2, [], 2, 2, (2, 1), [10, 11, 12, 13]),
            mk(3, 4, [Icon(6, 7, (0, 0))], 0, 0, None, None, True, False),
        ]),
        ('exception on a FRESH map (ZeroDivisionError: width 0 with pixels): the map stays', [], [
            mk(7, 3, [Icon(1, 2, (3, 4))], 0, 0, (0, 0), [1], False, True),
            mk(8, 0, [], 1, 1, (0, 0), [9]),
        ]),
        ('overlapping patches and a pixel-less update on a known 8x8 map', [(3, 8, 8)], [
            mk(3, 1, [], 3, 2, (5, 6), [1, 2, 3, 4, 5, 6], False, True),
            mk(3, 4, [], 2, 1, (6, 7), [7, 0], True, False),
            mk(3, 5, [Icon(6, 7, (0, 0))], 0, 0, None, None, False, False),
            mk(3, 6, [], 1, 3, (0, 0), [20, 21, 22]),
        ]),
        ('IndexError on a known map after two writes: old flags kept', [(7, 4, 3)], [
            mk(7, 3, [], 1, 1, (0, 0), [5], False, True),
            mk(7, 6, [Icon(2, 2, (2, 2))], 1, 3, (3, 1), [1, 2, 3], True, False),
            mk(7, 9, [], 1, 1, (0, 0), [9]),
        ]),
        ('ZeroDivisionError on a known map', [(1, 4, 3)], [
            mk(1, 2, [], 0, 0, (0, 0), [1], False, True),
        ]),
        ('negative offset wraps to the end of the bytearray', [(1, 4, 3)], [
            mk(1, 0, [], 2, 1, (-1, 0), [9, 8]),
        ]),
        ('columns beyond the map width spill into the next row', [(1, 4, 3)], [
            mk(1, 0, [], 4, 1, (2, 0), [1, 2, 3, 4]),
        ]),
        ('more pixels than width*height', [(1, 4, 3)], [
            mk(1, 0, [], 2, 1, (0, 0), [1, 2, 3, 4]),
        ]),
        ('offset far below zero: IndexError at the first write', [(2, 4, 3)], [
            mk(2, 1, [], 1, 1, (-128, -128), [1], False, True),
        ]),
        ('empty pixel array, width 0; unknown id among known ones', [(4, 2, 2), (6, 2, 2)], [
            mk(6, 1, [], 0, 0, (0, 0), [], False, False),
            mk(4, 1, [], 1, 1, (1, 1), [3], False, False),
        ]),
    ]


def generate():
    from minecraft.networking.packets.clientbound.play.map_packet import MapPacket as MP
    from minecraft.networking.connection import ConnectionContext
    ctx = ConnectionContext(protocol_version=340)
    fresh = MP.Map(5)
    out = []
    out.append('/- GENERATED by harness/gen/c20maps.py from the live code: `MapPacket.Map(5)` and a few\n'
               '   packet histories run through `MapPacket.apply_to_map_set` on\n'
               '   `MapSet(*[Map(id, width=w, height=h) ...])`.\n'
               '   Icon = (type, direction, x, z, display_name); Packet = (map_id, scale, icons, width,\n'
               '   height, offset x, offset z, pixels, is_tracking_position, is_locked); Obs = (dict key, id,\n'
               '   scale, icons, width, height, len(pixels), non-zero pixels as maximal runs (start, count, value),\n'
               '   is_tracking_position, is_locked); Scenario = (title, initial maps (id, width, height),\n'
               '   history, name of the exception that ended it, map set afterwards in dict order). -/\n')
    out.append('namespace PyCraft.Gen.C20Maps\n\n')
    out.append('abbrev Icon := Int × Int × Int × Int × Option String\n')
    out.append('abbrev Packet := Int × Int × List Icon × Nat × Nat × Int × Int × Option (List Nat) × Bool × Bool\n')
    out.append('abbrev Obs := Int × Option Int × Option Int × List Icon × Nat × Nat × Nat × List (Nat × Nat × Nat) × Bool × Bool\n')
    out.append('abbrev Scenario := String × List (Int × Nat × Nat) × List Packet × Option String × List Obs\n\n')
    out.append('def freshMap : Obs := %s\n\n' % _obs(5, fresh))
    rows = []
    for title, init, hist in _scenarios(MP, ctx):
        ms = MP.MapSet(*[MP.Map(i, width=w, height=h) for i, w, h in init])
        raised = None
        for p in hist:
            try:
                p.apply_to_map_set(ms)
            except Exception as e:      # the history ends at the first exception
                raised = type(e).__name__
                break
        rows.append('  (%s,\n    [%s],\n    [%s],\n    %s,\n    [%s])' % (
            _lean_str(title), ', '.join('(%s, %d, %d)' % (_int(i), w, h) for i, w, h in init),
            ',\n     '.join(_packet(p) for p in hist), _opt(raised, _lean_str),
            ',\n     '.join(_obs(k, m) for k, m in ms.maps_by_id.items())))
    out.append('def scenarios : List Scenario := [\n%s\n]\n\n' % ',\n'.join(rows))
    out.append('end PyCraft.Gen.C20Maps\n')
    return [(REL, ''.join(out))]


if __name__ == '__main__':
    lean = os.path.join(os.path.dirname(os.path.dirname(os.path.dirname(os.path.abspath(__file__)))),
                        'lean')
    for rel, text in generate():
        path = os.path.join(lean, rel)
        old = open(path).read() if os.path.exists(path) else None
        if old != text:
            with open(path, 'w') as f:
                f.write(text)
            print('wrote', path)
        else:
            print('unchanged', path)
