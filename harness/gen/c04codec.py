"""Generator for lean/PyCraft/Generated/C04Codec.lean (property C04, audit gap 6).

Probes, under EVERY known protocol version of the live code,

  * `Position.send_with_context`  AND  `Position.read_with_context`   (types/basic.py), and
  * `MultiBlockChangePacket.Record.send_with_context`  AND  `.read_with_context`
    (packets/clientbound/play/block_change_packet.py),

and classifies each direction independently against two reference codecs written here from the
property statement (not from the code):

    Position  1 = x,z,y (26/26/12 bits)      0 = x,y,z (26/12/26 bits)      2 = neither
    Record    1 = one VarLong bsid<<12|x<<8|z<<4|y      0 = byte x<<4|z, byte y, VarInt bsid
              2 = neither

A row is `(version, encoder flag, decoder flag)`, rows are in `KNOWN_PROTOCOL_VERSIONS`
(chronological) order.  Every version is probed twice (pass A: ascending order, encode first;
pass B: descending order, decode first, fresh contexts); a direction whose two passes disagree gets
flag 2, so that an impure/caching codec is reported by the Lean theorems, not hidden here.

`generate()` -> [(path relative to /verif/lean, Lean source text)].
"""
import io
import os
import sys

REL = 'PyCraft/Generated/C04Codec.lean'


def _minecraft():
    if 'minecraft' not in sys.modules:
        repo = os.environ.get('PYCRAFT_REPO', '/repo')
        if repo not in sys.path:
            sys.path.insert(0, repo)
    import minecraft
    return minecraft


class _Sink(object):
    def __init__(self):
        self.b = b''

    def send(self, d):
        self.b += bytes(d)


# ---------------------------------------------------------------- reference codecs (from the spec)

def _word_new(x, y, z):
    return ((x % 2 ** 26) * 2 ** 38 + (z % 2 ** 26) * 2 ** 12 + y % 2 ** 12).to_bytes(8, 'big')


def _word_old(x, y, z):
    return ((x % 2 ** 26) * 2 ** 38 + (y % 2 ** 12) * 2 ** 26 + z % 2 ** 26).to_bytes(8, 'big')


def _signed(v, bits):
    return v - 2 ** bits if v >= 2 ** (bits - 1) else v


def _unword_new(w):
    n = int.from_bytes(w, 'big')
    return (_signed(n >> 38, 26), _signed(n % 2 ** 12, 12), _signed((n >> 12) % 2 ** 26, 26))


def _unword_old(w):
    n = int.from_bytes(w, 'big')
    return (_signed(n >> 38, 26), _signed((n >> 26) % 2 ** 12, 12), _signed(n % 2 ** 26, 26))


def _varint(n):
    out = bytearray()
    while True:
        b = n & 0x7F
        n >>= 7
        out.append(b | (0x80 if n else 0))
        if not n:
            return bytes(out)


def _unvarint(data):
    n = shift = i = 0
    while True:
        b = data[i]
        i += 1
        n |= (b & 0x7F) << shift
        shift += 7
        if not b & 0x80:
            return n, data[i:]


def _rec_new(x, y, z, b):
    return _varint(b << 12 | (x & 0xF) << 8 | (z & 0xF) << 4 | (y & 0xF))


def _rec_old(x, y, z, b):
    return bytes([x << 4 | (z & 0xF), y]) + _varint(b)


def _unrec_new(data):
    v, rest = _unvarint(data)
    return ((v >> 8) & 0xF, v & 0xF, (v >> 4) & 0xF, v >> 12), rest


def _unrec_old(data):
    h, y = data[0], data[1]
    b, rest = _unvarint(data[2:])
    return (h >> 4, y, h & 0xF, b), rest


POS_PROBES = [(1, 2, 3), (-1, -2, -3), (2 ** 25 - 1, -2 ** 11, -2 ** 25), (-2 ** 25, 2 ** 11 - 1, 5)]
POS_WORDS = ([_word_new(*p) for p in POS_PROBES] + [_word_old(*p) for p in POS_PROBES] +
             [bytes.fromhex('0123456789abcdef'), bytes.fromhex('fedcba9876543210')])
# x, z < 16; y < 16 for the first three (valid in both formats), y = 200 only fits the old format
# (the new one masks it to 8)
REC_PROBES = [(1, 2, 3, 5), (15, 15, 0, 300), (0, 7, 15, 2 ** 20 + 3), (3, 200, 9, 70000)]
# every probe string ends in 00 00 00 so that both reference decoders (and both real branches)
# terminate inside it
REC_DATA = ([_rec_new(*p) + b'\0\0\0' for p in REC_PROBES] +
            [_rec_old(*p) + b'\0\0\0' for p in REC_PROBES])

assert any(_unword_new(w) != _unword_old(w) for w in POS_WORDS)
assert any(_unrec_new(d) != _unrec_old(d) for d in REC_DATA)
assert all(_unword_new(_word_new(*p)) == p and _unword_old(_word_old(*p)) == p for p in POS_PROBES)
assert all(_unrec_old(_rec_old(*p) + b'\0')[0] == p for p in REC_PROBES)
assert all(_unrec_new(_rec_new(*p) + b'\0')[0] == p for p in REC_PROBES[:3])


def _classify(got, new, old):
    return 1 if got == new else 0 if got == old else 2


# ------------------------------------------------------------------------------------- the probes

def _pos_enc(Position, ctx):
    got = []
    for p in POS_PROBES:
        s = _Sink()
        try:
            Position.send_with_context(p, s, ctx)
            got.append(s.b)
        except Exception:
            got.append(None)
    return _classify(got, [_word_new(*p) for p in POS_PROBES], [_word_old(*p) for p in POS_PROBES])


def _pos_dec(Position, ctx):
    got = []
    for w in POS_WORDS:
        f = io.BytesIO(w + b'\x2a')
        try:
            r = Position.read_with_context(f, ctx)
            got.append((tuple(int(c) for c in r), f.read()))
        except Exception:
            got.append(None)
    return _classify(got, [(_unword_new(w), b'\x2a') for w in POS_WORDS],
                     [(_unword_old(w), b'\x2a') for w in POS_WORDS])


def _rec_enc(Record, ctx):
    got = []
    for x, y, z, b in REC_PROBES:
        s = _Sink()
        try:
            Record.send_with_context(Record(x=x, y=y, z=z, block_state_id=b), s, ctx)
            got.append(s.b)
        except Exception:
            got.append(None)
    return _classify(got, [_rec_new(*p) for p in REC_PROBES], [_rec_old(*p) for p in REC_PROBES])


def _rec_dec(Record, ctx):
    got = []
    for d in REC_DATA:
        f = io.BytesIO(d)
        try:
            r = Record.read_with_context(f, ctx)
            got.append(((r.x, r.y, r.z, r.block_state_id), f.read()))
        except Exception:
            got.append(None)
    return _classify(got, [_unrec_new(d) for d in REC_DATA], [_unrec_old(d) for d in REC_DATA])


def tables():
    """-> (posCodec rows, recCodec rows), each [(version, encoder flag, decoder flag)]"""
    minecraft = _minecraft()
    from minecraft.networking.connection import ConnectionContext
    from minecraft.networking.types import Position
    from minecraft.networking.packets.clientbound.play import MultiBlockChangePacket
    Record = MultiBlockChangePacket.Record
    known = list(minecraft.KNOWN_PROTOCOL_VERSIONS)

    a = {}
    for pv in known:                                   # pass A: one context, encode first
        ctx = ConnectionContext(protocol_version=pv)
        pe, pd = _pos_enc(Position, ctx), _pos_dec(Position, ctx)
        re_, rd = _rec_enc(Record, ctx), _rec_dec(Record, ctx)
        a[pv] = (pe, pd, re_, rd)
    b = {}
    for pv in reversed(known):                         # pass B: fresh contexts, decode first
        rd = _rec_dec(Record, ConnectionContext(protocol_version=pv))
        pd = _pos_dec(Position, ConnectionContext(protocol_version=pv))
        re_ = _rec_enc(Record, ConnectionContext(protocol_version=pv))
        pe = _pos_enc(Position, ConnectionContext(protocol_version=pv))
        b[pv] = (pe, pd, re_, rd)
    m = {pv: tuple(x if x == y else 2 for x, y in zip(a[pv], b[pv])) for pv in known}
    return ([(pv, m[pv][0], m[pv][1]) for pv in known],
            [(pv, m[pv][2], m[pv][3]) for pv in known])


def _rows(rows):
    lines, per = [], 8
    for i in range(0, len(rows), per):
        lines.append('  ' + ', '.join('(%d, %d, %d)' % r for r in rows[i:i + per]))
    return '[\n' + ',\n'.join(lines) + ']'


def generate():
    pos, rec = tables()
    out = [
        '/- GENERATED by harness/gen/c04codec.py from the live code of /repo. Do not edit.',
        '   Both directions of the Position codec and of the MultiBlockChange record codec, probed',
        '   under every known protocol version, in KNOWN_PROTOCOL_VERSIONS (chronological) order.',
        '   Row = (version, flag of send_with_context, flag of read_with_context).',
        '   Position: 1 = x,z,y   0 = x,y,z   2 = neither (or not a pure function of the version).',
        '   Record:   1 = one VarLong   0 = byte, byte, VarInt   2 = neither. -/',
        'namespace PyCraft.Gen',
        '',
        'def posCodec : List (Nat × Nat × Nat) := ' + _rows(pos),
        '',
        'def recCodec : List (Nat × Nat × Nat) := ' + _rows(rec),
        '',
        'end PyCraft.Gen',
        '',
    ]
    return [(REL, '\n'.join(out))]


if __name__ == '__main__':
    sys.dont_write_bytecode = True
    root = os.path.join(os.path.dirname(os.path.dirname(os.path.dirname(os.path.abspath(__file__)))),
                        'lean')
    for rel, text in generate():
        path = os.path.join(root, rel)
        old = open(path).read() if os.path.exists(path) else None
        if old != text:
            os.makedirs(os.path.dirname(path), exist_ok=True)
            with open(path, 'w') as f:
                f.write(text)
            print('wrote', path)
        else:
            print('unchanged', path)
