"""Generator for lean/PyCraft/Generated/C19Seq.lean (property C19, audit item 23).

Evaluates the LIVE `minecraft/authentication.py` (and the `json` / `requests` it uses) and tabulates

  * liveConsts : the module constants AUTH_SERVER, SESSION_SERVER, CONTENT_TYPE, HEADERS,
                 AuthenticationToken.AGENT_NAME / AGENT_VERSION;
  * liveDumps  : (value, json.dumps(value)) for a fixed list of JSON values (escapes, non-BMP,
                 negative and big integers, nesting, empty containers);
  * liveLoads  : (text, json.loads(text) or none when it raises ValueError) for a fixed list of texts
                 (whitespace, all escapes, surrogate pairs, malformed inputs);
  * liveReplyTexts : the distinct (`res.text`, `res.json()` or none) pairs of the responses served in
                 the runs below, as the real `requests.Response` yields them;
  * liveRuns   : whole PROGRAM RUNS of the real code.  Several `AuthenticationToken` objects are
                 created, a fixed sequence of calls is made on them, and every HTTP exchange is
                 intercepted at `requests.adapters.HTTPAdapter.send`, i.e. AFTER requests has
                 prepared the request: recorded are the method, the URL, the headers that are not
                 requests' own defaults (names lower-cased), the body and the timeout.  The reply
                 served is a real `requests.Response` (status, bytes, utf-8); the table stores its
                 `status_code`, `text` and `json()` (none if it raises ValueError) as the code sees
                 them, or `fail` when the transport raised `requests.ConnectionError`.  Per call the
                 outcome (return value / exception class and attributes / `args[0]`) is stored, and
                 at the end the five attributes of every token.

The Lean theorems over these tables (`Props/C19Seq.lean`, `live_*`) say that the model predicts
every entry; they are re-checked against whatever the code says at generation time.

`generate()` -> [(path relative to /verif/lean, Lean source text)].
"""
import os
import sys

REL = 'PyCraft/Generated/C19Seq.lean'


def _auth():
    if 'minecraft' not in sys.modules:
        repo = os.environ.get('PYCRAFT_REPO', '/repo')
        if repo not in sys.path:
            sys.path.insert(0, repo)
    from minecraft import authentication
    return authentication


# ------------------------------------------------------------------ Lean rendering

def lstr(s):
    out = ['"']
    for ch in s:
        o = ord(ch)
        if ch == '"':
            out.append('\\"')
        elif ch == '\\':
            out.append('\\\\')
        elif ch == '\n':
            out.append('\\n')
        elif ch == '\t':
            out.append('\\t')
        elif ch == '\r':
            out.append('\\r')
        elif 0x20 <= o <= 0x7e:
            out.append(ch)
        elif o < 0x100:
            out.append('\\x%02x' % o)
        elif o < 0x10000:
            out.append('\\u%04x' % o)
        else:
            out.append(ch)          # no escape above the BMP in Lean: the character itself
    out.append('"')
    return ''.join(out)


def ljval(v):
    if v is None:
        return '.null'
    if v is True:
        return '.bool true'
    if v is False:
        return '.bool false'
    if isinstance(v, int):
        return '.num %d' % v if v >= 0 else '.num (%d)' % v
    if isinstance(v, str):
        return '.str ' + lstr(v)
    if isinstance(v, list):
        return '.arr [' + ', '.join(ljval(x) for x in v) + ']'
    if isinstance(v, dict):
        return '.obj [' + ', '.join('(%s, %s)' % (lstr(k), ljval(x)) for k, x in v.items()) + ']'
    raise TypeError('not a JSON value of the model: %r' % (v,))


def lopt(x, f):
    return 'none' if x is None else 'some (%s)' % f(x)


def int_json(v):
    """True when v only uses what the Lean JVal has (no floats, no lone surrogates in strings)."""
    if isinstance(v, float):
        return False
    if isinstance(v, str):
        return not any(0xd800 <= ord(ch) < 0xe000 for ch in v)
    if isinstance(v, list):
        return all(int_json(x) for x in v)
    if isinstance(v, dict):
        return all(isinstance(k, str) and int_json(x) for k, x in v.items())
    return v is None or isinstance(v, (bool, int, str))


# ------------------------------------------------------------------ tables 1-3

DUMP_VALUES = [
    None, True, False, 0, -1, 15, 1234567890123456789012, '', 'abc', 'a"b\\c/d', '\b\f\n\r\t',
    '\x00\x1f\x7f', '\xe9\u20ac\ud7ff\ue000\uffff', '\U0001f600\U00010000\U0010ffff', [], {}, [[]], [{}],
    [1, [2, [3, None]], 'x'], {'a': 1}, {'a': {'b': {'c': []}}, 'd': [True, False]},
    {'agent': {'name': 'Minecraft', 'version': 1}, 'username': 'u\xe9', 'password': 'p"w',
     'clientToken': 'c'},
    {'accessToken': None, 'clientToken': 'x'}, {'': ''}, {'k\n': [-5, {'': None}]},
]

LOAD_TEXTS = [
    'null', ' true ', '\tfalse\n', '0', '-0', '-12', '007', '1.5', '1e3', '-', '+1', '"x"',
    '"\\u00e9\\u20AC"', '"\\ud83d\\ude00"', '"\\ud83d"', '"\\ude00"', '"\\ud83dx"', '"a\\/b"',
    '"\\b\\f\\n\\r\\t\\"\\\\"', '"\\x"', '"a\nb"', '"unterminated', '[]', '[ ]', '[1,2]', '[1 , 2 ]',
    '[1,]', '[,1]', '[1 2]', '{}', '{ }', '{"a":1}', '{ "a" : 1 , "b" : [ ] }', '{"a":1,}', '{a:1}',
    '{"a" 1}', '{"a":}', '[{"x":[{"y":null}]}]', '', ' ', 'nul', 'truex', '[] []', '{"a":1}x',
    '\xe9', '"\xe9\U0001f600"', '<html>Bad Gateway</html>', '{"error": "E", "errorMessage": "M"}',
]


def dumps_table():
    import json
    return [(v, json.dumps(v)) for v in DUMP_VALUES]


def loads_table():
    import json
    rows = []
    for t in LOAD_TEXTS:
        try:
            v = json.loads(t)
        except ValueError:
            v = ('none',)
        else:
            if not int_json(v):
                continue        # floats and lone surrogates are outside the model
            v = ('some', v)
        rows.append((t, v))
    return rows


# ------------------------------------------------------------------ program runs

class Net(object):
    """Replaces HTTPAdapter.send while a run is observed."""

    def __init__(self):
        self.log = []
        self.reply = None

    def install(self):
        import requests
        from requests.adapters import HTTPAdapter
        net = self
        self._old = HTTPAdapter.send
        defaults = set(k.lower() for k in requests.utils.default_headers())

        def send(adapter, request, **kw):
            body = request.body
            if isinstance(body, bytes):
                body = body.decode('latin-1')
            hdrs = [(k.lower(), v) for k, v in request.headers.items()
                    if k.lower() not in defaults and k.lower() != 'content-length']
            net.log.append((request.method, request.url, hdrs, body or '', kw.get('timeout')))
            if net.reply is None:
                raise requests.ConnectionError('stand-in: connection refused')
            status, content = net.reply
            r = requests.Response()
            r.status_code = status
            r._content = content
            r.encoding = 'utf-8'
            r.url = request.url
            r.request = request
            return r
        HTTPAdapter.send = send

    def remove(self):
        from requests.adapters import HTTPAdapter
        HTTPAdapter.send = self._old


def reply_as_seen(reply):
    """What the code can see of the response it would get: (status, text, json-or-None-marker)."""
    import requests
    if reply is None:
        return None
    status, content = reply
    r = requests.Response()
    r.status_code = status
    r._content = content
    r.encoding = 'utf-8'
    try:
        j = ('some', r.json())
    except ValueError:
        j = ('none',)
    return (status, r.text, j)


VALUE_WHY = {
    "'access_token' not set!'": 'accessTokenNotSet',
    "'access_token' not set!": 'accessTokenNotSet',
    "'client_token' is not set!": 'clientTokenNotSet',
}


def observe(inits, steps):
    """inits: [(username, access_token, client_token)], steps: [(call, reply)] with
    call = ('authenticate', i, fresh, user, pw, inv) | ('refresh', i) | ('validate', i) |
           ('invalidate', i) | ('join', i, sid) | ('signout', user, pw),
    reply = None (transport failure) | (status, bytes).
    -> (seen per step, final token states)."""
    A = _auth()
    import requests
    from minecraft.exceptions import YggdrasilError
    net = Net()
    net.install()
    real_uuid4 = A.uuid.uuid4
    try:
        toks = [A.AuthenticationToken(u, a, c) for (u, a, c) in inits]
        seen = []
        for call, reply in steps:
            net.reply = reply
            net.log = []
            kind = call[0]
            if kind == 'signout':
                fn = lambda: A.AuthenticationToken.sign_out(call[1], call[2])
            else:
                if call[1] >= len(toks):
                    seen.append(None)
                    continue
                t = toks[call[1]]
                if kind == 'authenticate':
                    class U(object):
                        hex = call[2]
                    A.uuid.uuid4 = lambda: U
                    fn = lambda: t.authenticate(call[3], call[4], invalidate_previous=call[5])
                elif kind == 'join':
                    fn = lambda: t.join(call[2])
                else:
                    fn = getattr(t, kind)
            text = None
            try:
                r = fn()
                if r is True:
                    out = '.ret true'
                elif r is None:
                    out = '.retNone'
                elif r is False:
                    out = '.ret false'
                else:
                    raise AssertionError('unexpected return value %r' % (r,))
            except YggdrasilError as e:
                assert len(e.args) == 1
                text = e.args[0]
                assert text is None or isinstance(text, str)
                for f in (e.yggdrasil_error, e.yggdrasil_message):
                    assert not isinstance(f, (list, dict)), 'keep containers out of error/errorMessage'
                out = '.yggdrasil none (%s) (%s) (%s) (%s)' % (
                    lopt(e.status_code, lambda n: '%d' % n), ljval(e.yggdrasil_error),
                    ljval(e.yggdrasil_message), ljval(e.yggdrasil_cause))
            except requests.ConnectionError:
                out = '.transport'
            except ValueError as e:
                why = VALUE_WHY.get(e.args[0] if e.args else None)
                if why is None:
                    assert isinstance(e, requests.exceptions.JSONDecodeError) or 'JSON' in type(e).__name__, repr(e)
                    why = 'notJson'
                out = '.valueError .%s' % why
            except KeyError as e:
                out = '.keyError %s' % lstr(e.args[0])
            except TypeError:
                out = '.typeError'
            except AttributeError:
                out = '.attributeError'
            assert len(net.log) <= 1, 'more than one request in one call'
            seen.append((out, text, net.log[0] if net.log else None))
        final = [(t.username, t.access_token, t.client_token, t.profile.id_, t.profile.name) for t in toks]
        return seen, final
    finally:
        A.uuid.uuid4 = real_uuid4
        net.remove()


def J(obj):
    import json
    return json.dumps(obj).encode()


RESULT_A = {'accessToken': 'a-acc', 'clientToken': 'a-cli',
            'selectedProfile': {'id': 'a-id', 'name': 'Alice'}, 'user': {'id': 'ignored'}}
RESULT_B = {'accessToken': 'b-acc2', 'clientToken': 'b-cli2',
            'selectedProfile': {'id': 'b-id', 'name': 'B\xf6b'}}
ERR = {'error': 'ForbiddenOperationException', 'errorMessage': 'Invalid credentials. Invalid username or password.'}
ERR_CAUSE = {'error': 'ForbiddenOperationException', 'errorMessage': 'Invalid token', 'cause': 'UserMigratedException'}


def scenarios():
    N = None
    return [
        # 1. the happy sequence on one fresh token, every operation once
        ([(N, N, N)],
         [(('authenticate', 0, 'f' * 32, 'alice', 'pw', False), (200, J(RESULT_A))),
          (('validate', 0), (204, b'')),
          (('refresh', 0), (200, J(RESULT_B))),
          (('join', 0, 'srv-1'), (204, b'')),
          (('invalidate', 0), (204, b'')),
          (('signout', 'alice', 'pw'), (200, b''))]),
        # 2. every operation answered by an error: nothing changes
        ([('alice', 'acc', 'cli')],
         [(('authenticate', 0, '0' * 32, 'bob', 'pw', True), (403, J(ERR))),
          (('refresh', 0), (403, J(ERR_CAUSE))),
          (('validate', 0), (403, J(ERR))),
          (('invalidate', 0), (500, b'<html>Bad Gateway \xc3\xa9</html>')),
          (('join', 0, 's'), (204, b'')),
          (('signout', 'bob', ''), (204, b'')),
          (('signout', 'bob', ''), (429, J({'error': 'TooManyRequestsException'})))]),
        # 3. two tokens interleaved; a third index that does not exist
        ([(N, N, N), ('bob', 'b-acc', 'b-cli')],
         [(('authenticate', 0, 'f' * 32, 'alice', 'pw', False), (200, J(RESULT_A))),
          (('join', 1, 'srv'), (204, b'')),
          (('refresh', 1), (200, J(RESULT_B))),
          (('join', 0, 'srv'), (200, b'ignored')),
          (('validate', 2), (204, b'')),
          (('join', 1, 'srv'), (403, J(ERR_CAUSE))),
          (('invalidate', 1), (200, J(ERR)))]),
        # 4. transport failures
        ([('alice', 'acc', 'cli')],
         [(('authenticate', 0, 'f' * 32, 'carol', 'pw', False), None),
          (('refresh', 0), None),
          (('validate', 0), None),
          (('invalidate', 0), None),
          (('signout', 'u', 'p'), None)]),
        # 5. members of unexpected JSON types
        ([('alice', 'acc', 'cli')],
         [(('authenticate', 0, 'f' * 32, 'bob', 'pw', False),
           (200, J({'accessToken': None, 'clientToken': 'c2', 'selectedProfile': {'id': 'i', 'name': 'n'}}))),
          (('join', 0, 's'), (204, b'')),
          (('refresh', 0), (204, b'')),
          (('authenticate', 0, 'f' * 32, 'bob', 'pw', False),
           (200, J({'accessToken': 7, 'clientToken': [1], 'selectedProfile': {'id': 0, 'name': False}}))),
          (('join', 0, 's'), (204, b'')),
          (('refresh', 0), (200, J({'accessToken': 'a3', 'clientToken': 'c3', 'selectedProfile': None}))),
          (('refresh', 0), (200, J({'accessToken': 'a4', 'clientToken': 'c4', 'selectedProfile': {'id': 'i4'}}))),
          (('refresh', 0), (200, b'[1, 2]')),
          (('refresh', 0), (200, b'not json')),
          (('invalidate', 0), (403, J({'error': 5, 'errorMessage': None, 'cause': [1, 'x']})))]),
        # 6. preconditions; empty strings; the uuid fallback; non-ASCII in the payload
        ([(N, N, N), ('u', '', ''), ('', 'a', N)],
         [(('refresh', 0), (200, J(RESULT_A))),
          (('validate', 0), (204, b'')),
          (('invalidate', 0), (204, b'')),
          (('join', 0, 's'), (204, b'')),
          (('refresh', 1), (400, b'')),
          (('validate', 1), (200, J(RESULT_A))),
          (('authenticate', 1, 'abcdef0123456789' * 2, 'J\xfcrgen \U0001f600', 'p"\\w\n', False), (401, b'{}')),
          (('refresh', 2), (200, J(RESULT_A))),
          (('authenticate', 2, 'f' * 32, 'x', 'y', True), (200, J({'accessToken': 'a'})))]),
    ]


# ------------------------------------------------------------------ output

def lreq(q):
    if q is None:
        return 'none'
    method, url, hdrs, body, timeout = q
    return 'some ⟨%s, %s, [%s], %s, %d⟩' % (
        lstr(method), lstr(url), ', '.join('(%s, %s)' % (lstr(k), lstr(v)) for k, v in hdrs), lstr(body),
        timeout)


def lcall(call):
    k = call[0]
    if k == 'authenticate':
        return '.method %d (.authenticate %s %s %s %s)' % (
            call[1], lstr(call[2]), lstr(call[3]), lstr(call[4]), 'true' if call[5] else 'false')
    if k == 'join':
        return '.method %d (.join %s)' % (call[1], lstr(call[2]))
    if k == 'signout':
        return '.signOut %s %s' % (lstr(call[1]), lstr(call[2]))
    return '.method %d .%s' % (call[1], k)


def lresp(reply):
    s = reply_as_seen(reply)
    if s is None:
        return '.fail'
    status, text, j = s
    return '.reply ⟨%d, %s, %s⟩' % (status, lstr(text), 'none' if j[0] == 'none' else 'some (%s)' % ljval(j[1]))


def generate():
    A = _auth()
    consts = [
        ('AUTH_SERVER', A.AUTH_SERVER), ('SESSION_SERVER', A.SESSION_SERVER),
        ('CONTENT_TYPE', A.CONTENT_TYPE),
        ('HEADERS', ';'.join('%s=%s' % kv for kv in A.HEADERS.items())),
        ('AGENT_NAME', A.AuthenticationToken.AGENT_NAME),
        ('AGENT_VERSION', repr(A.AuthenticationToken.AGENT_VERSION)),
    ]
    out = [
        '/- GENERATED by harness/gen/c19seq.py from the LIVE code of /repo. Do not edit.',
        '   liveConsts: module constants of minecraft/authentication.py (HEADERS as k=v;k=v).',
        '   liveDumps : (value, json.dumps(value)).   liveLoads: (text, json.loads(text) | none = ValueError).',
        '   liveReplyTexts: the distinct (res.text, res.json() | none = ValueError) of the responses served below.',
        '   liveRuns  : observed program runs of the real AuthenticationToken, requests intercepted at',
        '               requests.adapters.HTTPAdapter.send (method, url, non-default headers, body, timeout). -/',
        'import PyCraft.Model.C19Seq',
        'namespace PyCraft.Gen.C19Seq',
        'open PyCraft.Json PyCraft.AuthSeq',
        '',
        'def liveConsts : List (String × String) := [',
        ',\n'.join('  (%s, %s)' % (lstr(k), lstr(v)) for k, v in consts),
        ']',
        '',
        'def liveDumps : List (JVal × String) := [',
        ',\n'.join('  (%s, %s)' % (ljval(v), lstr(t)) for v, t in dumps_table()),
        ']',
        '',
        'def liveLoads : List (String × Option JVal) := [',
        ',\n'.join('  (%s, %s)' % (lstr(t), 'none' if v[0] == 'none' else 'some (%s)' % ljval(v[1]))
                   for t, v in loads_table()),
        ']',
        '',
    ]
    names = []
    texts = []
    for inits, steps in scenarios():
        for _, reply in steps:
            rs = reply_as_seen(reply)
            if rs is not None and (rs[1], rs[2]) not in texts:
                texts.append((rs[1], rs[2]))
    out += [
        'def liveReplyTexts : List (String × Option JVal) := [',
        ',\n'.join('  (%s, %s)' % (lstr(t), 'none' if j[0] == 'none' else 'some (%s)' % ljval(j[1]))
                   for t, j in texts),
        ']',
        '',
    ]
    for k, (inits, steps) in enumerate(scenarios()):
        seen, final = observe(inits, steps)
        name = 'liveRun%d' % (k + 1)
        names.append(name)
        out += [
            'def %s : LiveRun where' % name,
            '  inits := [%s]' % ', '.join('(%s, %s, %s)' % tuple(ljval(x) for x in t) for t in inits),
            '  steps := [',
            ',\n'.join('    (%s, %s)' % (lcall(c), lresp(r)) for c, r in steps),
            '  ]',
            '  seen := [',
            ',\n'.join('    none' if s is None else
                       '    some (%s, %s, %s)' % (s[0], lopt(s[1], lstr), lreq(s[2])) for s in seen),
            '  ]',
            '  final := [%s]' % ', '.join('⟨%s, %s, %s, ⟨%s, %s⟩⟩' % tuple(ljval(x) for x in t) for t in final),
            '',
        ]
    out += ['def liveRuns : List LiveRun := [%s]' % ', '.join(names), '', 'end PyCraft.Gen.C19Seq', '']
    return [(REL, '\n'.join(out))]


if __name__ == '__main__':
    sys.dont_write_bytecode = True
    root = os.path.join(os.path.dirname(os.path.dirname(os.path.dirname(os.path.abspath(__file__)))),
                        'lean')
    for rel, text in generate():
        path = os.path.join(root, rel)
        old = open(path).read() if os.path.exists(path) else None
        if old != text:
            os.makedirs(os.path.dirname(path), exist_ok=True)
            with open(path, 'w') as f:
                f.write(text)
            print('wrote', path)
        else:
            print('unchanged', path)
