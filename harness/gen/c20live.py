"""Generator for lean/PyCraft/Generated/C20Live.lean (property C20, audit gap 16).

Everything here is OBSERVED by running the live code of the repository; nothing is copied from the
Lean model.  Tabulated:

  * `flagLive`      for every `BitFieldEnum` subclass of the library (same discovery walk as
                    `extract.flag_enums`): the qualified name, EVERY int-valued entry of
                    `cls.__dict__` in dict order (negative values and non-upper-case names included;
                    only `__dunder` entries are skipped, as in `extract.flag_enums`), and the 384 results of the live `cls.name_from_value(v)` for
                    v = -128 .. 255 (`none` = Python `None`).
  * `posFlagAttrs`  `getattr(PlayerPositionAndLookPacket, n)` for the five `FLAG_REL_*` names (what
                    `apply` reads through `self.FLAG_REL_*`).
  * `posApplyLive`  the live `PlayerPositionAndLookPacket.apply` run for every signed flag byte
                    -128 .. 127 on the probe `posProbeCur` / `posProbePkt` (integer valued floats, so
                    the float arithmetic is exact): flags -> resulting [x, y, z, yaw, pitch].
  * `plistProbe` / `plistProbeLive`  a fixed history of player-list packets (all five action kinds,
                    property lists, an overwrite, updates of unknown players, removal and re-add)
                    pushed through the live `PlayerListItemPacket.apply`, and the resulting
                    `players_by_uuid.items()` with all six slots of every `PlayerListItem`.

`generate()` -> [(path relative to /verif/lean, Lean source text)].
"""
import os
import sys

REL = 'PyCraft/Generated/C20Live.lean'

LO, HI = -128, 256          # name_from_value is tabulated for LO <= v < HI

POS_NAMES = ('FLAG_REL_X', 'FLAG_REL_Y', 'FLAG_REL_Z', 'FLAG_REL_YAW', 'FLAG_REL_PITCH')
POS_CUR = (10, 20, 30, 350, 355)
POS_PKT = (1, 2, 3, 20, -30)


def _minecraft():
    if 'minecraft' not in sys.modules:
        repo = os.environ.get('PYCRAFT_REPO', '/repo')
        if repo not in sys.path:
            sys.path.insert(0, repo)
    import minecraft
    return minecraft


# ------------------------------------------------------------------------------- Lean literals

def lstr(s):
    out = ['"']
    for ch in s:
        if ch in '"\\':
            out.append('\\' + ch)
        elif 32 <= ord(ch) < 127:
            out.append(ch)
        else:
            out.append('\\u{%x}' % ord(ch))
    out.append('"')
    return ''.join(out)


def lint(v):
    v = int(v)
    return '%d' % v if v >= 0 else '(%d)' % v


def lopt(s):
    return 'none' if s is None else 'some %s' % lstr(s)


def llist(items):
    return '[%s]' % ', '.join(items)


# ------------------------------------------------------------------------------- flag enums

def flag_classes():
    """every BitFieldEnum subclass reachable in the minecraft package (incl. nested classes), by the
    same walk as harness/extract.py:flag_enums -> sorted [(qualified name, class)]"""
    import importlib
    import pkgutil
    minecraft = _minecraft()
    from minecraft.networking.types import BitFieldEnum
    seen, out = set(), []

    def visit(obj, qual):
        if not isinstance(obj, type) or id(obj) in seen:
            return
        seen.add(id(obj))
        if issubclass(obj, BitFieldEnum) and obj is not BitFieldEnum:
            out.append((qual, obj))
        for n, v in list(vars(obj).items()):
            if isinstance(v, type) and v.__module__ == obj.__module__:
                visit(v, qual + '.' + n)
    for m in pkgutil.walk_packages(minecraft.__path__, 'minecraft.'):
        mod = importlib.import_module(m.name)
        for n, v in list(vars(mod).items()):
            if isinstance(v, type) and v.__module__ == mod.__name__:
                visit(v, mod.__name__ + '.' + n)
    return sorted(out, key=lambda p: p[0])


def flag_live():
    rows = []
    for qual, cls in flag_classes():
        # same rule as extract.flag_enums (interpreter-internal dunder entries such as Python 3.13's
        # `__firstlineno__` are not members) but WITHOUT its `v >= 0` filter
        members = [(n, int(v)) for n, v in cls.__dict__.items()
                   if isinstance(v, int) and not n.startswith('__')]
        names = []
        for v in range(LO, HI):
            r = cls.name_from_value(v)
            assert r is None or isinstance(r, str), (qual, v, r)
            names.append(r)
        rows.append((qual, members, names))
    return rows


# ------------------------------------------------------------------------------- position packet

def pos_live():
    _minecraft()
    from minecraft.networking.packets.clientbound.play import PlayerPositionAndLookPacket as P
    from minecraft.networking.types import PositionAndLook
    attrs = [(n, int(getattr(P, n))) for n in POS_NAMES]
    rows = []
    for flags in range(-128, 128):
        pkt = P(x=float(POS_PKT[0]), y=float(POS_PKT[1]), z=float(POS_PKT[2]),
                yaw=float(POS_PKT[3]), pitch=float(POS_PKT[4]), flags=flags)
        tgt = PositionAndLook(x=float(POS_CUR[0]), y=float(POS_CUR[1]), z=float(POS_CUR[2]),
                              yaw=float(POS_CUR[3]), pitch=float(POS_CUR[4]))
        pkt.apply(tgt)
        res = [tgt.x, tgt.y, tgt.z, tgt.yaw, tgt.pitch]
        assert all(float(r) == int(r) for r in res), res
        rows.append((flags, [int(r) for r in res]))
    return attrs, rows


# ------------------------------------------------------------------------------- player list

# (kind, uuid, name, properties, gamemode, ping, display_name); kind = action_id
#   0 add   1 gamemode   2 latency   3 display name   4 remove        (unused slots: '' [] 0 0 None)
PLIST_PROBE = [
    [(0, 7, 'alice', [('textures', 'dGV4', 'c2ln'), ('cape', 'yes', None)], 1, 42, 'Alice A.'),
     (0, 9, 'bob', [], 0, 17, None)],
    [(1, 7, '', [], 3, 0, None), (1, 8, '', [], 2, 0, None)],
    [(2, 9, '', [], 0, 250, None), (2, 11, '', [], 0, 5, None)],
    [(3, 9, '', [], 0, 0, 'Bobby'), (3, 7, '', [], 0, 0, None), (3, 12, '', [], 0, 0, 'ghost')],
    [(0, 5, 'carol', [('p', 'v', None)], 2, 3, None)],
    [(4, 7, '', [], 0, 0, None), (4, 13, '', [], 0, 0, None)],
    [(0, 9, 'bob2', [('q', 'w', 's')], 1, 1, 'B2'), (0, 7, 'alice2', [], 0, 8, None)],
    [(1, 9, '', [], 2, 0, None), (2, 7, '', [], 0, 99, None)],
]


def plist_live():
    _minecraft()
    from minecraft.networking.packets.clientbound.play import PlayerListItemPacket as PL
    kinds = {0: PL.AddPlayerAction, 1: PL.UpdateGameModeAction, 2: PL.UpdateLatencyAction,
             3: PL.UpdateDisplayNameAction, 4: PL.RemovePlayerAction}
    for k, c in kinds.items():
        assert c.action_id == k and PL.Action.type_from_id(k) is c, (k, c)
    plist = PL.PlayerList()
    for pkt_rows in PLIST_PROBE:
        actions = []
        for (kind, uuid, name, props, gm, ping, dn) in pkt_rows:
            if kind == 0:
                plist_props = [PL.PlayerProperty(name=a, value=b, signature=c) for a, b, c in props]
                act = PL.AddPlayerAction(uuid=uuid, name=name, properties=plist_props, gamemode=gm,
                                         ping=ping, display_name=dn)
            elif kind == 1:
                act = PL.UpdateGameModeAction(uuid=uuid, gamemode=gm)
            elif kind == 2:
                act = PL.UpdateLatencyAction(uuid=uuid, ping=ping)
            elif kind == 3:
                act = PL.UpdateDisplayNameAction(uuid=uuid, display_name=dn)
            else:
                act = PL.RemovePlayerAction(uuid=uuid)
            actions.append(act)
        packet = PL(action_type=kinds[pkt_rows[0][0]], actions=actions)
        packet.apply(plist)
    out = []
    for key, it in plist.players_by_uuid.items():
        out.append((key, (it.uuid, it.name,
                          [(p.name, p.value, p.signature) for p in it.properties],
                          it.gamemode, it.ping, it.display_name)))
    return out


# ------------------------------------------------------------------------------- rendering

def _props(props):
    return llist('(%s, %s, %s)' % (lstr(a), lstr(b), lopt(c)) for a, b, c in props)


def _row(r):
    kind, uuid, name, props, gm, ping, dn = r
    return '(%d, %s, %s, %s, %s, %s, %s)' % (kind, lint(uuid), lstr(name), _props(props), lint(gm),
                                            lint(ping), lopt(dn))


def render():
    out = ['/- GENERATED by harness/gen/c20live.py from the LIVE code (never edit): see the docstring of',
           '   the generator for what each table observes. -/',
           'namespace PyCraft.Gen.C20Live', '']
    fl = flag_live()
    out.append('/-- first value / number of values for which `name_from_value` is tabulated -/')
    out.append('def nameLo : Int := %s' % lint(LO))
    out.append('def nameCount : Nat := %d' % (HI - LO))
    out.append('')
    for i, (qual, members, names) in enumerate(fl):
        out.append('def flagMembers_%d : List (String × Int) := %s' %
                   (i, llist('(%s, %s)' % (lstr(n), lint(v)) for n, v in members)))
        out.append('def flagNames_%d : List (Option String) := [' % i)
        chunk = []
        for j in range(0, len(names), 4):
            chunk.append('  ' + ', '.join(lopt(s) for s in names[j:j + 4]))
        out.append(',\n'.join(chunk))
        out.append(']')
        out.append('')
    out.append('/-- (qualified class name, int-valued `cls.__dict__` entries in order, live printed names for')
    out.append('`nameLo ≤ v < nameLo + nameCount`) -/')
    out.append('def flagLive : List (String × List (String × Int) × List (Option String)) := [')
    out.append(',\n'.join('  (%s, flagMembers_%d, flagNames_%d)' % (lstr(q), i, i)
                          for i, (q, _, _) in enumerate(fl)))
    out.append(']')
    out.append('')
    attrs, rows = pos_live()
    out.append('/-- `getattr(PlayerPositionAndLookPacket, name)` -/')
    out.append('def posFlagAttrs : List (String × Int) := %s' %
               llist('(%s, %s)' % (lstr(n), lint(v)) for n, v in attrs))
    out.append('def posProbeCur : List Int := %s' % llist(lint(v) for v in POS_CUR))
    out.append('def posProbePkt : List Int := %s' % llist(lint(v) for v in POS_PKT))
    out.append('/-- flags byte ↦ `[x, y, z, yaw, pitch]` of the target after the live `apply` -/')
    out.append('def posApplyLive : List (Int × List Int) := [')
    lines = []
    for j in range(0, len(rows), 4):
        lines.append('  ' + ', '.join('(%s, %s)' % (lint(f), llist(lint(v) for v in r))
                                      for f, r in rows[j:j + 4]))
    out.append(',\n'.join(lines))
    out.append(']')
    out.append('')
    out.append('/-- probe history: packets of (action_id, uuid, name, properties, gamemode, ping, display_name) -/')
    out.append('def plistProbe : List (List (Nat × Int × String × List (String × String × Option String) × Int × Int × Option String)) := [')
    out.append(',\n'.join('  ' + llist(_row(r) for r in pkt) for pkt in PLIST_PROBE))
    out.append(']')
    out.append('/-- live `players_by_uuid.items()` after the probe history: (key, the six slots of the item) -/')
    out.append('def plistProbeLive : List (Int × (Int × String × List (String × String × Option String) × Int × Int × Option String)) := [')
    out.append(',\n'.join('  (%s, (%s, %s, %s, %s, %s, %s))' %
                          (lint(k), lint(u), lstr(n), _props(p), lint(g), lint(pg), lopt(d))
                          for k, (u, n, p, g, pg, d) in plist_live()))
    out.append(']')
    out.append('')
    out.append('end PyCraft.Gen.C20Live')
    out.append('')
    return '\n'.join(out)


def generate():
    return [(REL, render())]


if __name__ == '__main__':
    root = os.path.join(os.path.dirname(os.path.dirname(os.path.dirname(os.path.abspath(__file__)))), 'lean')
    for rel, text in generate():
        path = os.path.join(root, rel)
        old = open(path).read() if os.path.exists(path) else None
        if old != text:
            os.makedirs(os.path.dirname(path), exist_ok=True)
            with open(path, 'w') as f:
                f.write(text)
            print('wrote', path)
        else:
            print('unchanged', path)
