"""Generator for lean/PyCraft/Generated/C18Keys.lean (property C18, audit gaps 9 and 10).

Runs the LIVE `LoginReactor.react` (minecraft/networking/connection.py) on encryption requests, with

  * `os.urandom` replaced by a recording stub whose i-th call returns the fixed bytes
    `stub(i)[j] = (37*i + 11*j + 5) % 256` (so the Lean side knows every draw), and
  * the real socket / raw file object replaced by recorders,

and tabulates, per login,

  * which `os.urandom` calls (index, size) were made WHILE `react` ran,
  * the two RSA fields of the encryption response, taken from the bytes on the wire and opened with
    the RAW RSA private-key operation `c^d mod n` (not the library's padding decoder) — the encoded
    messages EM, with every padding octet in front of the first 00 separator shown as ff if it is
    nonzero (the padding is random; nothing else of it matters to the decoding),
  * a fixed sequence of `connection.socket.send` / `connection.socket.recv` /
    `connection.file_object.read` calls made afterwards through whatever `react` installed, with
    the bytes that reached the real socket resp. the plaintext returned.

Logins 0-2 reuse ONE `Connection` object, login 3 uses a second one; a fifth probe sends TWO
encryption requests on one connection (nested wrappers).  The Lean theorems over this table
(`Props/C18Keys.lean`, `live_*`) say: exactly one fresh 16-byte draw per request, made at request
time, never reused; the secret that reaches the server under PKCS#1 v1.5 is that draw; the installed
channel is AES-128-CFB8 with key = IV = that draw in both directions with one shared decryptor; a
second request wraps the first cipher.

`generate()` -> [(path relative to /verif/lean, Lean source text)].
"""
import os
import sys

REL = 'PyCraft/Generated/C18Keys.lean'
HARNESS = os.path.dirname(os.path.dirname(os.path.abspath(__file__)))


def _minecraft():
    if 'minecraft' not in sys.modules:
        repo = os.environ.get('PYCRAFT_REPO', '/repo')
        if repo not in sys.path:
            sys.path.insert(0, repo)
    import minecraft
    return minecraft


def _rsakeys():
    if HARNESS not in sys.path:
        sys.path.insert(0, HARNESS)
    import rsakeys
    return rsakeys


def stub(i, n=16):
    return bytes((37 * i + 11 * j + 5) % 256 for j in range(n))


class _RawSock(object):
    def __init__(self):
        self.sent = []
        self.inq = []

    def send(self, d):
        self.sent.append(bytes(d))
        return len(d)

    def recv(self, n):
        return self.inq.pop(0)

    def fileno(self):
        return -1

    def close(self):
        pass

    def shutdown(self, *a, **k):
        pass


class _RawFile(object):
    def __init__(self):
        self.inq = []

    def read(self, n):
        return self.inq.pop(0)

    def fileno(self):
        return -1

    def close(self):
        pass


def _unvarint(data):
    n = shift = i = 0
    while True:
        b = data[i]
        i += 1
        n |= (b & 0x7F) << shift
        shift += 7
        if not b & 0x80:
            return n, data[i:]


def _parse_response(frame):
    """plaintext uncompressed frame of an EncryptionResponsePacket -> (packet id, field 1, field 2)"""
    n, rest = _unvarint(frame)
    assert n == len(rest), 'frame length'
    pid, rest = _unvarint(rest)
    a, rest = _unvarint(rest)
    f1, rest = rest[:a], rest[a:]
    b, rest = _unvarint(rest)
    f2, rest = rest[:b], rest[b:]
    assert len(f1) == a and len(f2) == b and rest == b'', 'fields'
    return pid, f1, f2


def _raw_rsa(key, ct):
    k = (key['n'].bit_length() + 7) // 8
    if len(ct) != k:
        return b''
    return pow(int.from_bytes(ct, 'big'), key['d'], key['n']).to_bytes(k, 'big')


def _normalise(em):
    """nonzero octets from index 2 up to the first 00 at index >= 2 become ff"""
    out = bytearray(em)
    i = 2
    while i < len(out) and out[i] != 0:
        out[i] = 0xff
        i += 1
    return bytes(out)


def _data(seed, n):
    return bytes((seed * 29 + 13 * j + 7) % 256 for j in range(n))


# kind: 0 = socket.send, 1 = socket.recv, 2 = file_object.read
LOGIN_OPS = [(0, 3), (1, 2), (2, 2), (0, 0), (0, 2), (2, 1), (1, 2)]
# after the second (randomly padded) reply the encryptors' registers are random: receive side only
NESTED_OPS = [(1, 5), (2, 3), (1, 2)]


class _Urandom(object):
    def __init__(self):
        self.calls = []          # sizes, index = position

    def __call__(self, n):
        i = len(self.calls)
        self.calls.append(n)
        return stub(i, n)


def _run_ops(conn, raw, rawf, ops, seed):
    out = []
    for j, (kind, n) in enumerate(ops):
        d = _data(seed * 16 + j, n)
        if kind == 0:
            before = len(raw.sent)
            conn.socket.send(d)
            got = b''.join(raw.sent[before:])
        elif kind == 1:
            raw.inq.append(d)
            got = conn.socket.recv(len(d))
        else:
            rawf.inq.append(d)
            got = conn.file_object.read(len(d))
        out.append((kind, d, bytes(got)))
    return out


def tables():
    _minecraft()
    rsakeys = _rsakeys()
    import collections
    from minecraft.networking.connection import Connection, LoginReactor
    from minecraft.networking.packets import clientbound

    real_urandom = os.urandom
    rng = _Urandom()
    os.urandom = rng
    try:
        def fresh(conn, proto):
            conn.context.protocol_version = proto
            raw, rawf = _RawSock(), _RawFile()
            conn.socket, conn.file_object = raw, rawf
            conn.auth_token = None
            conn.options.compression_enabled = False
            conn._outgoing_packet_queue = collections.deque()
            conn.reactor = LoginReactor(conn)
            return raw, rawf

        def request(conn, key, token):
            p = clientbound.login.EncryptionRequestPacket()
            p.context = conn.context
            p.server_id = '-'
            p.public_key = key['der']
            p.verify_token = token
            before = len(rng.calls)
            conn._react(p)
            return [(i, rng.calls[i]) for i in range(before, len(rng.calls))]

        def opened(key, frame):
            _, f1, f2 = _parse_response(frame)
            return _normalise(_raw_rsa(key, f1)), _normalise(_raw_rsa(key, f2))

        conn_a = Connection('localhost', 1, initial_version=47)
        conn_b = Connection('localhost', 1, initial_version=754)
        plan = [(0, conn_a, 47, rsakeys.RSA_1024, _data(101, 4)),
                (0, conn_a, 340, rsakeys.RSA_2048, _data(102, 1)),
                (0, conn_a, 578, rsakeys.RSA_1024, _data(103, 64)),
                (1, conn_b, 754, rsakeys.RSA_2048, _data(104, 16))]
        logins = []
        for idx, (cid, conn, proto, key, token) in enumerate(plan):
            raw, rawf = fresh(conn, proto)
            rng(16)                                   # something else in the process draws
            draws = request(conn, key, token)
            em_s, em_t = opened(key, b''.join(raw.sent))
            ops = _run_ops(conn, raw, rawf, LOGIN_OPS, idx + 1)
            logins.append(dict(conn=cid, k=(key['n'].bit_length() + 7) // 8, draws=draws,
                               token=token, em_s=em_s, em_t=em_t, ops=ops))

        # two requests on one connection
        conn_c = Connection('localhost', 1, initial_version=47)
        raw, rawf = fresh(conn_c, 47)
        key = rsakeys.RSA_1024
        d1 = request(conn_c, key, _data(105, 4))
        n1 = len(raw.sent)
        em1 = opened(key, b''.join(raw.sent))
        d2 = request(conn_c, key, _data(106, 4))
        second = b''.join(raw.sent[n1:])              # the second reply, through the first cipher
        ops = _run_ops(conn_c, raw, rawf, NESTED_OPS, 9)
        nested = dict(draws1=d1, draws2=d2, em_s1=em1[0], reply2_head=second[:5],
                      reply2_len=len(second), ops=ops)
    finally:
        os.urandom = real_urandom
    return logins, nested


def _hexs(b):
    return '[' + ', '.join('0x%02x' % x for x in b) + ']'


def _bytes(b, indent='      '):
    if len(b) <= 20:
        return _hexs(b)
    lines = [', '.join('0x%02x' % x for x in b[i:i + 20]) for i in range(0, len(b), 20)]
    return '[' + (',\n' + indent + ' ').join(lines) + ']'


def _pairs(ps):
    return '[' + ', '.join('(%d, %d)' % p for p in ps) + ']'


def _ops(ops):
    return ('[' + ',\n       '.join('(%d, %s, %s)' % (k, _hexs(d), _hexs(o)) for k, d, o in ops) + ']')


def generate():
    logins, nested = tables()
    out = [
        '/- GENERATED by harness/gen/c18keys.py from the live code of /repo. Do not edit.',
        '   The live `LoginReactor.react` run on encryption requests with `os.urandom` replaced by',
        '   the recording stub `stubDraw` and the real socket / file object by recorders.',
        '   Calls afterwards: (kind, data, result), kind 0 = connection.socket.send (result = bytes',
        '   handed to the real socket), 1 = connection.socket.recv, 2 = connection.file_object.read',
        '   (data = what the real socket / raw file returned, result = what the caller got).',
        '   emSecret / emToken: the two fields of the encryption response as found on the wire,',
        '   opened with the raw RSA operation c^d mod n; nonzero padding octets shown as ff. -/',
        'namespace PyCraft.Gen.C18Keys',
        '',
        '/-- What the i-th call of the stubbed `os.urandom(16)` returned. -/',
        'def stubDraw (i : Nat) : List UInt8 :=',
        '  (List.range 16).map fun j => UInt8.ofNat ((37 * i + 11 * j + 5) % 256)',
        '',
        'structure LoginRow where',
        '  /-- which `Connection` object -/',
        '  conn : Nat',
        '  /-- octets of the modulus of the server key -/',
        '  kBytes : Nat',
        '  /-- (index, size) of the `os.urandom` calls made while `react` ran -/',
        '  draws : List (Nat × Nat)',
        '  token : List UInt8',
        '  emSecret : List UInt8',
        '  emToken : List UInt8',
        '  calls : List (Nat × List UInt8 × List UInt8)',
        '',
    ]
    for i, r in enumerate(logins):
        out += [
            'def login%d : LoginRow where' % i,
            '  conn := %d' % r['conn'],
            '  kBytes := %d' % r['k'],
            '  draws := %s' % _pairs(r['draws']),
            '  token := %s' % _bytes(r['token']),
            '  emSecret :=\n      %s' % _bytes(r['em_s']),
            '  emToken :=\n      %s' % _bytes(r['em_t']),
            '  calls :=\n      %s' % _ops(r['ops']),
            '',
        ]
    out += [
        '/-- Logins 0-2 reuse one `Connection` object; before each login one unrelated',
        '`os.urandom(16)` call is made. -/',
        'def loginRows : List LoginRow := [%s]' % ', '.join('login%d' % i for i in range(len(logins))),
        '',
        '/-- Two encryption requests on one connection. -/',
        'structure NestedRow where',
        '  draws1 : List (Nat × Nat)',
        '  draws2 : List (Nat × Nat)',
        '  emSecret1 : List UInt8',
        '  /-- first 5 bytes the real socket got for the SECOND reply (frame length, packet id and',
        '  length prefix of the first field: `85 02 01 80 01` in plaintext) -/',
        '  reply2Head : List UInt8',
        '  /-- number of bytes the real socket got for the second reply -/',
        '  reply2Len : Nat',
        '  calls : List (Nat × List UInt8 × List UInt8)',
        '',
        'def nested : NestedRow where',
        '  draws1 := %s' % _pairs(nested['draws1']),
        '  draws2 := %s' % _pairs(nested['draws2']),
        '  emSecret1 :=\n      %s' % _bytes(nested['em_s1']),
        '  reply2Head := %s' % _hexs(nested['reply2_head']),
        '  reply2Len := %d' % nested['reply2_len'],
        '  calls :=\n      %s' % _ops(nested['ops']),
        '',
        'end PyCraft.Gen.C18Keys',
        '',
    ]
    return [(REL, '\n'.join(out))]


if __name__ == '__main__':
    sys.dont_write_bytecode = True
    import warnings
    warnings.simplefilter('ignore')
    root = os.path.join(os.path.dirname(HARNESS), 'lean')
    for rel, text in generate():
        path = os.path.join(root, rel)
        old = open(path).read() if os.path.exists(path) else None
        if old != text:
            os.makedirs(os.path.dirname(path), exist_ok=True)
            with open(path, 'w') as f:
                f.write(text)
            print('wrote', path)
        else:
            print('unchanged', path)
