"""C07, field NAMES and EXACT types (audit gap 5).

Emits two Lean tables, re-computed on every run:

* lean/PyCraft/Generated/C07Named.lean -- the LIVE side.  For every core packet (table, class) of
  harness/refproto.py and every protocol number in the live `minecraft.RELEASE_PROTOCOL_VERSIONS`
  (the supported releases, minecraft/__init__.py l.537-545), what a packet INSTANCE of the class that
  `get_packets(ctx)` registers under that name says at run time (packet.py l.22-24, l.40-43: the
  instance properties `id` and `definition`, which is what `Packet.read` l.66 and
  `Packet.write`/`write_fields` l.100-114 iterate over): the id, and the definition flattened to
  (attribute NAME, wire type) pairs in order, each wire type rendered exactly (Byte and UnsignedByte
  are different).  Also: how many registered classes carry that name, and whether the class is
  "regular" (none of read / write_fields / write / _write_buffer overridden, and the classmethods
  get_id / get_definition agree with the instance properties).
* lean/PyCraft/Ref/C07Named.lean -- the REFERENCE side: harness/refproto.py's `layout(name, v)` with
  the field names kept (harness/extract.py's `gen_ref` drops them), for every packet in CORE and
  every release in RELEASES.  Nothing of /repo is consulted for this file.

Run: /venv/bin/python /verif/harness/gen/c07named.py   (PYCRAFT_REPO overrides /repo)
"""
import os
import sys

HARNESS = os.path.dirname(os.path.dirname(os.path.abspath(__file__)))
if HARNESS not in sys.path:
    sys.path.insert(0, HARNESS)
REPO = os.environ.get('PYCRAFT_REPO', '/repo')
if REPO not in sys.path:
    sys.path.insert(0, REPO)
sys.dont_write_bytecode = True

TABLES = {
    'cbHandshake': ('clientbound', 'handshake'), 'cbStatus': ('clientbound', 'status'),
    'cbLogin': ('clientbound', 'login'), 'cbPlay': ('clientbound', 'play'),
    'sbHandshake': ('serverbound', 'handshake'), 'sbStatus': ('serverbound', 'status'),
    'sbLogin': ('serverbound', 'login'), 'sbPlay': ('serverbound', 'play'),
}

REF_TYPES = {'bool': '.bool', 'u8': '.int .u8', 'i8': '.int .i8', 'i16': '.int .i16', 'u16': '.int .u16',
             'i32': '.int .i32', 'i64': '.int .i64', 'f32': '.int .f32', 'f64': '.int .f64',
             'varint': '.varint', 'varlong': '.varlong', 'string': '.string', 'uuid': '.uuid',
             'bytesv': '.bytesVarint', 'nbt': '.custom .nbt'}


def lean_str(s):
    out = ['"']
    for ch in s:
        if ch in '"\\':
            out.append('\\' + ch)
        elif 32 <= ord(ch) < 127:
            out.append(ch)
        else:
            out.append('\\u{%x}' % ord(ch))
    out.append('"')
    return ''.join(out)


def ref_ty(t):
    if isinstance(t, tuple):
        return '.array %s (%s)' % ({'varint': '.varint', 'i32': '.i32'}[t[1]], ref_ty(t[2]))
    return REF_TYPES[t]


def lay_term(lay):
    return '[%s]' % ', '.join('(%s, %s)' % (lean_str(n), t) for n, t in lay)


# ----------------------------------------------------------------------------------- live side
def observe(order):
    """-> {(table, class): {pv: (count, regular, id-or-None, layout-or-None)}}"""
    import refproto as R
    from extract import wtype_of
    from minecraft.networking.connection import ConnectionContext
    from minecraft.networking import packets
    from minecraft.networking.packets import Packet
    res = {}
    for pv in order:
        for name in R.CORE:
            table, cname = R.PYCRAFT_NAME[name]
            direction, state = TABLES[table]
            gp = getattr(getattr(packets, direction), state).get_packets
            ctx = ConnectionContext(protocol_version=pv)
            found = [c for c in gp(ctx) if c.__name__ == cname]
            if len(found) != 1:
                obs = (len(found), False, None, None)
            else:
                cls = found[0]
                inst = cls(context=ctx)
                try:
                    i = inst.id
                except Exception:
                    i = None
                if isinstance(i, bool) or not isinstance(i, int):
                    i = None
                try:
                    d = inst.definition
                    lay = tuple((n, wtype_of(t, ctx)[0]) for f in d for n, t in f.items())
                except KeyError:
                    raise
                except Exception:
                    d, lay = None, None
                regular = (cls.read is Packet.read and cls.write_fields is Packet.write_fields
                           and cls.write is Packet.write and cls._write_buffer is Packet._write_buffer)
                try:
                    ctx2 = ConnectionContext(protocol_version=pv)
                    d2 = cls.get_definition(ctx2)
                    lay2 = tuple((n, wtype_of(t, ctx2)[0]) for f in d2 for n, t in f.items())
                    regular = regular and cls.get_id(ctx2) == i and lay2 == lay
                except KeyError:
                    raise
                except Exception:
                    regular = False
                obs = (1, regular, i, lay)
            res.setdefault((table, cname), {})[pv] = obs
    return res


def gen_live():
    import minecraft
    import refproto as R
    rel = list(minecraft.RELEASE_PROTOCOL_VERSIONS)
    a, b = observe(rel), observe(list(reversed(rel)))
    if a != b:
        raise AssertionError('the core packets are not a pure function of the version')
    out = ['/- GENERATED by harness/gen/c07named.py from the LIVE code of /repo: for every core packet class and',
           '   every protocol in minecraft.RELEASE_PROTOCOL_VERSIONS, the run-time `id` and `definition` of an',
           '   instance of the class registered under that name (field NAMES kept, exact wire types).',
           '   Do not edit. -/',
           'import PyCraft.Model.Wire', 'namespace PyCraft.Gen.C07Named', 'open PyCraft', '',
           '/-- (protocol, number of registered classes of that name, regular generic codec?, id, named layout) -/',
           'abbrev LiveRow := Nat × Nat × Bool × Option Int × Option (List (String × WType))', '',
           '/-- `minecraft.RELEASE_PROTOCOL_VERSIONS` as imported now -/',
           'def liveReleases : List Nat := [%s]' % ', '.join(map(str, rel)), '',
           '/-- key: (pyCraft table, class name) -/',
           'def live : List ((String × String) × List LiveRow) := [']
    ents = []
    seen = []
    for name in R.CORE:
        key = R.PYCRAFT_NAME[name]
        if key in seen:
            continue
        seen.append(key)
        rows = []
        for pv in rel:
            n, reg, i, lay = a[key][pv]
            rows.append('    (%d, %d, %s, %s, %s)' % (
                pv, n, 'true' if reg else 'false', 'none' if i is None else 'some (%d)' % i,
                'none' if lay is None else 'some ' + lay_term(lay)))
        ents.append('  ((%s, %s), [\n%s])' % (lean_str(key[0]), lean_str(key[1]), ',\n'.join(rows)))
    out.append(',\n'.join(ents))
    out += [']', '', 'end PyCraft.Gen.C07Named', '']
    return '\n'.join(out)


# ----------------------------------------------------------------------------------- reference side
def gen_ref_named():
    import refproto as R
    out = ['/- GENERATED by harness/gen/c07named.py from harness/refproto.py ALONE (the hand-written reference of',
           '   the published protocol; nothing of /repo is consulted): per core packet and release, the published',
           '   id and the published layout as (field NAME, exact type) pairs.  Do not edit: edit refproto.py. -/',
           'import PyCraft.Model.Wire', 'namespace PyCraft.Ref', 'open PyCraft', '',
           '/-- per reference packet: (release, published id, published named layout); absent = the packet does',
           'not exist in that release -/',
           'def named : List (String × List (Nat × Int × List (String × WType))) := [']
    rows = []
    for n in R.CORE:
        ents = []
        for v in R.RELEASES:
            lay = R.layout(n, v)
            if lay is None:
                continue
            ents.append('    (%d, %d, %s)' % (v, R.packet_id(n, v), lay_term([(f, ref_ty(t)) for f, t in lay])))
        rows.append('  (%s, [\n%s])' % (lean_str(n), ',\n'.join(ents)))
    out.append(',\n'.join(rows))
    out += [']', '', 'end PyCraft.Ref', '']
    return '\n'.join(out)


def generate():
    return [('PyCraft/Generated/C07Named.lean', gen_live()),
            ('PyCraft/Ref/C07Named.lean', gen_ref_named())]


if __name__ == '__main__':
    lean = os.path.join(os.path.dirname(HARNESS), 'lean')
    if len(sys.argv) > 1:
        lean = sys.argv[1]
    for rel, text in generate():
        path = os.path.join(lean, rel)
        old = open(path).read() if os.path.exists(path) else None
        if old != text:
            os.makedirs(os.path.dirname(path), exist_ok=True)
            tmp = path + '.tmp%d' % os.getpid()
            with open(tmp, 'w') as f:
                f.write(text)
            os.replace(tmp, path)
            print('wrote', path)
        else:
            print('unchanged', path)
