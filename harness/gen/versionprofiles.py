"""Generator of lean/PyCraft/Generated/VersionProfiles.lean: per-version BEHAVIOUR of the live
PlayingReactor / LoginReactor and of the packet classes they read and write, observed by running the
real code of /repo under every SUPPORTED protocol version on fixed reference inputs.

`Generated/Ids.lean` and `Generated/Layouts.lean` (harness/extract.py) tabulate the DECLARATIVE side
(`get_packets`, `get_id`, `get_definition`).  What no table records is
  * which clientbound class the reactor's own dict `{get_id(ctx): cls}` dispatches under which id,
    and what `react` tests (`packet.packet_name`), i.e. class -> packet_name;
  * what `react` DOES under a version: teleport confirm or position echo (`connection.py`,
    `PlayingReactor.react`: its own `protocol_later_eq(107)` test, independent of the one in
    `PlayerPositionAndLookPacket.get_definition`), the keep-alive echo, the disconnect reaction, the
    login reactions; and the id and field bytes the replies get on the wire.
This module records exactly that, so that `Props/VersionProfiles.lean` can decide in the kernel that
the version |-> (ids, layout flags) map the Lean play/login models are instantiated with IS what the
code does (same flag for reader, reactor and writer; switch points 107/339/755, 385/391/707).

generate() -> [(path relative to /verif/lean, Lean source)].  Nothing is written under /repo.
Run as a script to write the file:  /venv/bin/python /verif/harness/gen/versionprofiles.py
(PYCRAFT_REPO=<dir> probes another working tree, e.g. a copy with a seeded change.)
"""
import os
import sys

sys.dont_write_bytecode = True

REPO = os.environ.get('PYCRAFT_REPO', '/repo')
HARNESS = os.path.dirname(os.path.dirname(os.path.abspath(__file__)))
REL = 'PyCraft/Generated/VersionProfiles.lean'

FAIL = 0xFFFFFF          # an id that could not be observed (probe raised / ambiguous dispatch)

# reference inputs ---------------------------------------------------------------------------
# keep-alive payload: read as a Long it is the first 8 bytes (a NEGATIVE signed value), read as a
# VarInt it is the first 5 bytes (canonical 5-byte encoding); the 9th byte is never consumed.
KA = bytes([0x81, 0x82, 0x83, 0x84, 0x05, 0x06, 0x07, 0x08, 0x09])
# position-and-look payload: 32 bytes x,y,z,yaw,pitch (finite, non-NaN patterns), flags 0x1f,
# teleport id 0x4d (= 77), dismount flag 01, one byte of slack.
POS = bytes(range(0x40, 0x60)) + b'\x1f' + b'\x4d\x01\xee'
TID = 0x4d
DISC = b'\x02{}' + b'\xee'
PLUGIN = b'\x05' + b'\x03a:b' + b'\x99'          # message id 5, channel "a:b", data 99


def _setup():
    if HARNESS not in sys.path:
        sys.path.insert(0, HARNESS)
    if REPO not in sys.path:
        sys.path.insert(0, REPO)
    import minecraft
    assert os.path.abspath(minecraft.__file__).startswith(os.path.abspath(REPO)), minecraft.__file__
    return minecraft


def lean_str(s):
    out = ['"']
    for ch in s:
        if ch in '"\\':
            out.append('\\' + ch)
        elif 32 <= ord(ch) < 127:
            out.append(ch)
        else:
            out.append('\\u{%x}' % ord(ch))
    out.append('"')
    return ''.join(out)


class _Sink(object):
    def __init__(self):
        self.b = b''

    def send(self, d):
        self.b += bytes(d)


class _Options(object):
    compression_enabled = False
    compression_threshold = -1


class _Conn(object):
    """the part of Connection the reactors touch; records instead of doing I/O"""

    def __init__(self, ctx, token=None):
        self.context = ctx
        self.options = _Options()
        self.written = []          # (packet, force)
        self.disconnects = []      # immediate flags
        self.spawned = False
        self.auth_token = token
        self.socket = object()
        self.file_object = object()
        self.reactor = None

    def write_packet(self, packet, force=False):
        self.written.append((packet, force))

    def disconnect(self, immediate=False):
        self.disconnects.append(immediate)


def _wire(packet, ctx):
    """(id, field bytes) of the frame `Packet.write` produces for `packet` under `ctx`
    (uncompressed), as `Connection._write_packet` would: context set, then write(socket)"""
    from minecraft.networking.packets import PacketBuffer
    from minecraft.networking.types import VarInt
    packet.context = ctx
    s = _Sink()
    packet.write(s)
    buf = PacketBuffer()
    buf.send(s.b)
    buf.reset_cursor()
    n = VarInt.read(buf)
    body = buf.read()
    assert len(body) == n
    b2 = PacketBuffer()
    b2.send(body)
    b2.reset_cursor()
    pid = VarInt.read(b2)
    return pid, b2.read()


def _dispatch(reactor, name):
    """ids under which the reactor's OWN table holds a class with this packet_name"""
    return sorted(i for i, c in reactor.clientbound_packets.items() if c.packet_name == name)


def _read(reactor, pid, data):
    """what read_packet does behind the id VarInt: instantiate the registered class, read.
    -> (packet, number of bytes consumed)"""
    from minecraft.networking.packets import PacketBuffer
    p = reactor.clientbound_packets[pid]()
    p.context = reactor.connection.context
    buf = PacketBuffer()
    buf.send(data)
    buf.reset_cursor()
    p.read(buf)
    return p, len(data) - len(buf.read())


def _varint(n):
    out = b''
    while True:
        b = n & 0x7f
        n >>= 7
        out += bytes([b | (0x80 if n else 0)])
        if not n:
            return out


def play_probe(pv):
    """one row: what the live PlayingReactor does under protocol `pv`"""
    from minecraft.networking.connection import ConnectionContext, PlayingReactor
    ctx = ConnectionContext(protocol_version=pv)
    row = dict(v=pv, kaCb=FAIL, kaRead=2, kaSb=FAIL, kaWrite=2, posCb=FAIL, posRead=3, ackSb=FAIL,
               ackKind=2, discCb=FAIL, discKind=2, setComp=None)
    conn = _Conn(ctx)
    r = PlayingReactor(conn)
    sc = _dispatch(r, 'set compression')
    row['setComp'] = sc[0] if len(sc) == 1 else (None if not sc else FAIL)
    # ---- keep alive
    try:
        ids = _dispatch(r, 'keep alive')
        if len(ids) == 1:
            row['kaCb'] = ids[0]
            p, used = _read(r, ids[0], KA)
            if used == 8 and p.keep_alive_id == int.from_bytes(KA[:8], 'big', signed=True):
                row['kaRead'] = 1
            elif used == 5 and p.keep_alive_id == 0x81 - 0x80 + (2 << 7) + (3 << 14) + (4 << 21) + (5 << 28):
                row['kaRead'] = 0
            conn.written = []
            r.react(p)
            if len(conn.written) == 1 and conn.written[0][1] is False and not conn.disconnects:
                q = conn.written[0][0]
                pid, fields = _wire(q, ctx)
                row['kaSb'] = pid
                if q.packet_name == 'keep alive' and fields == KA[:8]:
                    row['kaWrite'] = 1
                elif q.packet_name == 'keep alive' and fields == KA[:5]:
                    row['kaWrite'] = 0
    except Exception:
        pass
    # ---- player position and look
    try:
        conn = _Conn(ctx)
        r = PlayingReactor(conn)
        ids = _dispatch(r, 'player position and look')
        if len(ids) == 1:
            row['posCb'] = ids[0]
            p, used = _read(r, ids[0], POS)
            has_tid = getattr(p, 'teleport_id', None)
            if used == 33 and has_tid is None:
                row['posRead'] = 0
            elif used == 34 and has_tid == TID:
                row['posRead'] = 1
            elif used == 35 and has_tid == TID and p.dismount_vehicle is True:
                row['posRead'] = 2
            r.react(p)
            if len(conn.written) == 1 and conn.written[0][1] is False and conn.spawned is True \
                    and not conn.disconnects:
                q = conn.written[0][0]
                pid, fields = _wire(q, ctx)
                row['ackSb'] = pid
                if q.packet_name == 'teleport confirm' and fields == _varint(TID):
                    row['ackKind'] = 1
                elif q.packet_name == 'position and look' and fields == POS[:32] + b'\x01':
                    row['ackKind'] = 0
    except Exception:
        pass
    # ---- disconnect
    try:
        conn = _Conn(ctx)
        r = PlayingReactor(conn)
        ids = _dispatch(r, 'disconnect')
        if len(ids) == 1:
            row['discCb'] = ids[0]
            p, used = _read(r, ids[0], DISC)
            r.react(p)
            if used == 3 and p.json_data == '{}' and conn.disconnects == [False] and not conn.written:
                row['discKind'] = 1
    except Exception:
        pass
    return row


class _Token(object):
    def __init__(self):
        self.joined = []

    def join(self, server_id):
        self.joined.append(server_id)


def login_probe(pv):
    """one row: what the live LoginReactor does under protocol `pv`, and the id a login start is
    written with"""
    import rsakeys
    from minecraft.networking.connection import ConnectionContext, LoginReactor, PlayingReactor
    from minecraft.networking.packets import serverbound
    ctx = ConnectionContext(protocol_version=pv)
    row = dict(v=pv, lsId=FAIL, discCb=FAIL, encReqCb=FAIL, successCb=FAIL, setCompCb=FAIL,
               plugReqCb=None, encResp=FAIL, encKind=2, plugRespId=FAIL, plugReact=None, plugKind=2,
               successKind=2, setCompKind=2)
    # login start, as connect() builds it
    try:
        ls = serverbound.login.LoginStartPacket()
        ls.name = 'n'
        pid, fields = _wire(ls, ctx)
        if fields == b'\x01n':
            row['lsId'] = pid
    except Exception:
        pass
    try:
        pr = serverbound.login.PluginResponsePacket(message_id=5, successful=False)
        pid, fields = _wire(pr, ctx)
        if fields == b'\x05\x00':
            row['plugRespId'] = pid
    except Exception:
        pass

    def one(name):
        conn = _Conn(ctx)
        r = LoginReactor(conn)
        ids = _dispatch(r, name)
        return conn, r, ids
    for key, name in (('discCb', 'disconnect'), ('encReqCb', 'encryption request'),
                      ('successCb', 'login success'), ('setCompCb', 'set compression')):
        ids = one(name)[2]
        if len(ids) == 1:
            row[key] = ids[0]
    ids = one('login plugin request')[2]
    row['plugReqCb'] = ids[0] if len(ids) == 1 else (None if not ids else FAIL)
    # ---- encryption request (offline server id: no join)
    try:
        conn, r, ids = one('encryption request')
        der = rsakeys.RSA_1024['der']
        data = b'\x01-' + _varint(len(der)) + der + b'\x04\x01\x02\x03\x04' + b'\xee'
        p, used = _read(r, ids[0], data)
        sock0, fo0 = conn.socket, conn.file_object
        r.react(p)
        if used == len(data) - 1 and len(conn.written) == 1 and conn.written[0][1] is True \
                and conn.socket is not sock0 and conn.file_object is not fo0:
            q = conn.written[0][0]
            pid, fields = _wire(q, ctx)
            row['encResp'] = pid
            # two VarInt-prefixed arrays of 128 bytes (RSA-1024)
            if q.packet_name == 'encryption response' and len(fields) == 2 * (2 + 128) \
                    and fields[:2] == b'\x80\x01' and fields[130:132] == b'\x80\x01':
                row['encKind'] = 1
    except Exception:
        pass
    # ---- login plugin request
    try:
        conn, r, ids = one('login plugin request')
        if len(ids) == 1:
            p, used = _read(r, ids[0], PLUGIN)
            r.react(p)
            if len(conn.written) == 1 and conn.written[0][1] is False:
                q = conn.written[0][0]
                pid, fields = _wire(q, ctx)
                row['plugReact'] = pid
                if q.packet_name == 'login plugin response' and fields == b'\x05\x00':
                    row['plugKind'] = 1
        elif not ids:
            row['plugKind'] = 0          # not decodable under this version: never reacted to
    except Exception:
        pass
    # ---- login success: which of the two UUID formats does `read` accept
    try:
        kinds = []
        for kind, data in ((1, b'\x00' * 16 + b'\x01n'), (0, b'\x01u\x01n')):
            conn, r, ids = one('login success')
            try:
                p, used = _read(r, ids[0], data + b'\xee')
                r.react(p)
            except Exception:
                continue
            want = '00000000-0000-0000-0000-000000000000' if kind else 'u'
            if used == len(data) and p.UUID == want and p.Username == 'n' \
                    and isinstance(conn.reactor, PlayingReactor) and not conn.written:
                kinds.append(kind)
        if len(kinds) == 1:
            row['successKind'] = kinds[0]
    except Exception:
        pass
    try:
        conn, r, ids = one('set compression')
        p, used = _read(r, ids[0], b'\x80\x02\xee')
        r.react(p)
        if used == 2 and conn.options.compression_threshold == 256 \
                and conn.options.compression_enabled is True and not conn.written:
            row['setCompKind'] = 1
    except Exception:
        pass
    return row


def name_table(direction, state):
    """class -> packet_name for every class registered in that table under any known version"""
    import minecraft
    from minecraft.networking.connection import ConnectionContext
    from minecraft.networking import packets
    gp = getattr(getattr(packets, direction), state).get_packets
    names = {}
    for pv in minecraft.KNOWN_PROTOCOL_VERSIONS:
        for cls in gp(ConnectionContext(protocol_version=pv)):
            n = cls.packet_name
            if not isinstance(n, str):
                n = '?'
            if names.setdefault(cls.__name__, n) != n:
                names[cls.__name__] = '?'      # two classes of one name with different packet names
    return sorted(names.items())


def tables():
    minecraft = _setup()
    sup = list(minecraft.SUPPORTED_PROTOCOL_VERSIONS)
    play = [play_probe(pv) for pv in sup]
    login = [login_probe(pv) for pv in sup]
    # purity smoke check: once more in reverse order
    if play != list(reversed([play_probe(pv) for pv in reversed(sup)])) or \
            login != list(reversed([login_probe(pv) for pv in reversed(sup)])):
        raise AssertionError('reactor probes are not a pure function of the version')
    return dict(play=play, login=login,
                cbPlayNames=name_table('clientbound', 'play'),
                cbLoginNames=name_table('clientbound', 'login'))


def _opt(x):
    return 'none' if x is None else 'some %d' % x


def generate():
    t = tables()
    out = ['/- GENERATED by harness/gen/versionprofiles.py by RUNNING the live PlayingReactor / LoginReactor and',
           '   packet classes of /repo under every SUPPORTED protocol version on fixed reference inputs.',
           '   Do not edit. -/',
           'namespace PyCraft.Gen', '',
           '/-- What the real `PlayingReactor` did under one protocol version (%d = not observable).' % FAIL,
           '* `kaCb`/`posCb`/`discCb`: the id under which the reactor\'s own table `{get_id(ctx): cls}` holds THE class whose',
           '  `packet_name` is "keep alive" / "player position and look" / "disconnect"; `setComp` likewise for',
           '  "set compression" (`none` = no such class registered).',
           '* `kaRead`: `read` of that class on `81 82 83 84 05 06 07 08 09`: 1 = consumed 8 bytes as a signed Long,',
           '  0 = consumed 5 bytes as a VarInt, 2 = neither.',
           '* `kaSb`, `kaWrite`: `react` queued exactly one packet (not forced); its id on the wire; 1 = it is named',
           '  "keep alive" and its field bytes are the 8 bytes read, 0 = … the 5 bytes read, 2 = neither.',
           '* `posRead`: `read` on 32 bytes + flags + `4d 01 ee`: 0 = consumed 33 bytes and the packet has no teleport id,',
           '  1 = 34 bytes, teleport id 77, 2 = 35 bytes, teleport id 77, dismount flag True, 3 = neither.',
           '* `ackSb`, `ackKind`: `react` queued exactly one packet and set `spawned`; its id on the wire; 1 = it is named',
           '  "teleport confirm" with fields `VarInt(77)`, 0 = it is named "position and look" with fields = the 32 bytes',
           '  read followed by `01`, 2 = neither.',
           '* `discKind`: 1 = `read` consumed the String and `react` called `disconnect()` once (not immediate) and wrote',
           '  nothing. -/',
           'structure PlayProbe where',
           '  v : Nat', '  kaCb : Nat', '  kaRead : Nat', '  kaSb : Nat', '  kaWrite : Nat', '  posCb : Nat',
           '  posRead : Nat', '  ackSb : Nat', '  ackKind : Nat', '  discCb : Nat', '  discKind : Nat',
           '  setComp : Option Nat', 'deriving DecidableEq, Repr', '',
           '/-- What the real `LoginReactor` did under one protocol version.',
           '* `lsId`: id on the wire of a `LoginStartPacket` (as `connect()` builds it); `plugRespId`: id on the wire of a',
           '  `PluginResponsePacket(message_id=5, successful=False)` — whether or not the version registers it.',
           '* `discCb` … `plugReqCb`: id under which the reactor\'s own table holds THE class named "disconnect",',
           '  "encryption request", "login success", "set compression", "login plugin request" (`none` = not registered).',
           '* `encResp`, `encKind`: `react` to an encryption request (offline id, RSA-1024 key) wrote exactly one packet,',
           '  FORCED, and replaced socket and file object; its id on the wire; 1 = named "encryption response" with two',
           '  VarInt-prefixed 128-byte arrays.',
           '* `plugReact`, `plugKind`: `none`/0 = a plugin request is not decodable (never reacted to); `some id`/1 = `react`',
           '  queued exactly one packet (not forced) named "login plugin response" with fields `05 00`, written with `id`.',
           '* `successKind`: "login success" is read completely and the reactor becomes a `PlayingReactor` for exactly one of',
           '  the two formats: 1 = UUID as 16 bytes, 0 = UUID as a String (2 = neither or both);',
           '  `setCompKind`: 1 = threshold 256 read and set, compression enabled. -/',
           'structure LoginProbe where',
           '  v : Nat', '  lsId : Nat', '  discCb : Nat', '  encReqCb : Nat', '  successCb : Nat', '  setCompCb : Nat',
           '  plugReqCb : Option Nat', '  encResp : Nat', '  encKind : Nat', '  plugRespId : Nat',
           '  plugReact : Option Nat', '  plugKind : Nat', '  successKind : Nat', '  setCompKind : Nat',
           'deriving DecidableEq, Repr', '',
           '/-- one row per supported version, in `SUPPORTED_PROTOCOL_VERSIONS` order -/',
           'def playProbe : List PlayProbe := [']
    out.append(',\n'.join(
        '  ⟨%d, %d, %d, %d, %d, %d, %d, %d, %d, %d, %d, %s⟩' % (
            r['v'], r['kaCb'], r['kaRead'], r['kaSb'], r['kaWrite'], r['posCb'], r['posRead'], r['ackSb'],
            r['ackKind'], r['discCb'], r['discKind'], _opt(r['setComp'])) for r in t['play']))
    out += [']', '', 'def loginProbe : List LoginProbe := [']
    out.append(',\n'.join(
        '  ⟨%d, %d, %d, %d, %d, %d, %s, %d, %d, %d, %s, %d, %d, %d⟩' % (
            r['v'], r['lsId'], r['discCb'], r['encReqCb'], r['successCb'], r['setCompCb'], _opt(r['plugReqCb']),
            r['encResp'], r['encKind'], r['plugRespId'], _opt(r['plugReact']), r['plugKind'],
            r['successKind'], r['setCompKind']) for r in t['login']))
    out += [']', '']
    for key, doc in (('cbPlayNames', 'clientbound play'), ('cbLoginNames', 'clientbound login')):
        out += ['/-- class ↦ `packet_name` (what `react` tests) of every class some version registers as %s -/' % doc,
                'def %s : List (String × String) := [' % key,
                ',\n'.join('  (%s, %s)' % (lean_str(c), lean_str(n)) for c, n in t[key]), ']', '']
    out += ['end PyCraft.Gen', '']
    return [(REL, '\n'.join(out))]


if __name__ == '__main__':
    lean = os.path.join(os.path.dirname(HARNESS), 'lean')
    for rel, text in generate():
        path = os.path.join(lean, rel)
        old = open(path).read() if os.path.exists(path) else None
        if old != text:
            with open(path, 'w') as f:
                f.write(text)
            print('wrote', path)
        else:
            print('unchanged', path)
