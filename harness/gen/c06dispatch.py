"""Generator for the C06Dispatch gap (audit rank 20): live facts about how the REAL reactors of
/repo/minecraft/networking/connection.py bind to the per-state id tables, tabulated into Lean.

Emits lean/PyCraft/Generated/C06Dispatch.lean with three tables, all over the SUPPORTED protocol
versions in KNOWN_PROTOCOL_VERSIONS order (the order of the rows of Generated/Ids.lean), run-length
grouped (consecutive versions with an identical row share one group):

* `reactorBinding` : for every reactor class (PacketReactor and all its subclasses defined in
  connection.py) the name of the state table whose `get_packets` function IS (python `is`) the
  reactor's `get_clientbound_packets`; "?" if it is none of the eight.
* `reactorDicts`   : for every reactor class and version, the dict `clientbound_packets` that the REAL
  `PacketReactor.__init__` builds when handed a connection whose `.context` has that version:
  `some [(key, class name)]` sorted by key, or `none` if the constructor raised or a key is not a
  plain int.  On ids that two classes share (known finding K1) the class recorded is whichever the
  interpreter's set order made win in THIS run; the Lean theorem holds for either.
* `selfIds`        : for every one of the eight tables and version, `[(class name, instance id)]`
  where the instance id is what `Packet.write` sends: `cls(context=ctx).id` (the `overridable_property`
  of packet.py:23-25), as opposed to `cls.get_id(ctx)` which Generated/Ids.lean tabulates.

Usage: /venv/bin/python /verif/harness/gen/c06dispatch.py   (writes the file if changed)
"""
import os
import sys

if '/repo' not in sys.path:
    sys.path.insert(0, '/repo')

TABLES = [
    ('cbHandshake', 'clientbound', 'handshake'), ('cbStatus', 'clientbound', 'status'),
    ('cbLogin', 'clientbound', 'login'), ('cbPlay', 'clientbound', 'play'),
    ('sbHandshake', 'serverbound', 'handshake'), ('sbStatus', 'serverbound', 'status'),
    ('sbLogin', 'serverbound', 'login'), ('sbPlay', 'serverbound', 'play'),
]

REL = os.path.join('PyCraft', 'Generated', 'C06Dispatch.lean')


def lean_str(s):
    out = ['"']
    for ch in s:
        if ch in '"\\':
            out.append('\\' + ch)
        elif 32 <= ord(ch) < 127:
            out.append(ch)
        else:
            out.append('\\u{%x}' % ord(ch))
    out.append('"')
    return ''.join(out)


def plain_int(i):
    return isinstance(i, int) and not isinstance(i, bool)


def supported_in_known_order():
    import minecraft
    sup = set(minecraft.SUPPORTED_PROTOCOL_VERSIONS)
    return [pv for pv in minecraft.KNOWN_PROTOCOL_VERSIONS if pv in sup]


def reactor_classes():
    from minecraft.networking import connection as C

    def subs(c):
        out = [c]
        for s in c.__subclasses__():
            out += subs(s)
        return out
    seen, res = set(), []
    for r in subs(C.PacketReactor):
        if r not in seen and r.__module__ == C.__name__:
            seen.add(r)
            res.append(r)
    return res


def binding(reactor):
    from minecraft.networking import packets
    f = reactor.get_clientbound_packets
    for name, direction, state in TABLES:
        if getattr(getattr(packets, direction), state).get_packets is f:
            return name
    return '?'


class _StubConnection(object):
    """the only attribute PacketReactor.__init__ (and the subclasses' __init__) reads"""
    def __init__(self, context):
        self.context = context


def reactor_dict(reactor, pv):
    from minecraft.networking.connection import ConnectionContext
    try:
        r = reactor(_StubConnection(ConnectionContext(protocol_version=pv)))
        d = r.clientbound_packets
        if not isinstance(d, dict) or not all(plain_int(k) for k in d):
            return None
        # Where several registered classes carry one id (the known collisions) the class the dict keeps depends
        # on set iteration order, i.e. on memory addresses, and changes from run to run.  The table records the
        # alphabetically first claimant instead, after checking that the real winner IS one of the claimants
        # (the theorem `reactor_dicts` only requires membership); a winner that is no claimant is recorded as is.
        ctx_ = r.connection.context if hasattr(r, 'connection') else None
        claim = {}
        try:
            for c in reactor.get_clientbound_packets(ctx_):
                claim.setdefault(c.get_id(ctx_), []).append(c.__name__)
        except Exception:
            claim = {}
        out = []
        for k, v in d.items():
            names = sorted(claim.get(k, []))
            out.append((k, names[0] if len(names) > 1 and v.__name__ in names else v.__name__))
        return sorted(out)
    except Exception:
        return None


def self_ids(direction, state, pv):
    from minecraft.networking.connection import ConnectionContext
    from minecraft.networking import packets
    ctx = ConnectionContext(protocol_version=pv)
    ents = []
    for cls in getattr(getattr(packets, direction), state).get_packets(ctx):
        try:
            i = cls(context=ctx).id
        except Exception:
            i = None
        if not plain_int(i):
            i = None
        ents.append((cls.__name__, i))
    # same order as harness/extract.py id_tables()
    return sorted(ents, key=lambda e: (e[0], -1 if e[1] is None else e[1]))


def groups(versions, f):
    """run-length grouping: [([v, ...], row)] with consecutive equal rows merged"""
    out = []
    for pv in versions:
        row = f(pv)
        if out and out[-1][1] == row:
            out[-1][0].append(pv)
        else:
            out.append(([pv], row))
    return out


def generate():
    vs = supported_in_known_order()
    reactors = reactor_classes()
    o = ['/- GENERATED by harness/gen/c06dispatch.py from the live reactors of',
         '   /repo/minecraft/networking/connection.py and the live packet classes. Do not edit. -/',
         'namespace PyCraft.Gen', '',
         '/-- (reactor class, state table whose `get_packets` IS its `get_clientbound_packets`) -/',
         'def reactorBinding : List (String × String) := [%s]' %
         ', '.join('(%s, %s)' % (lean_str(r.__name__), lean_str(binding(r))) for r in reactors), '',
         '/-- (consecutive supported versions, the dict the real `__init__` built: `some` items sorted',
         'by key, `none` = raised / non-int key) -/',
         'abbrev DictGrp := List Nat × Option (List (Int × String))', '']
    for r in reactors:
        gs = groups(vs, lambda pv: reactor_dict(r, pv))
        lines = []
        for g, row in gs:
            body = 'none' if row is None else 'some [%s]' % ', '.join(
                '(%d, %s)' % (k, lean_str(n)) for k, n in row)
            lines.append('  ([%s], %s)' % (', '.join(map(str, g)), body))
        o.append('def dict%s : List DictGrp := [\n%s\n]\n' % (r.__name__, ',\n'.join(lines)))
    o.append('def reactorDicts : List (String × List DictGrp) := [%s]\n' %
             ', '.join('(%s, dict%s)' % (lean_str(r.__name__), r.__name__) for r in reactors))
    o += ['/-- (consecutive supported versions, [(class, `cls(context=ctx).id`)]) -/',
          'abbrev SelfGrp := List Nat × List (String × Option Int)', '']
    for name, direction, state in TABLES:
        gs = groups(vs, lambda pv: self_ids(direction, state, pv))
        lines = []
        for g, row in gs:
            es = ', '.join('(%s, %s)' % (lean_str(c), 'none' if i is None else 'some (%d)' % i)
                           for c, i in row)
            lines.append('  ([%s], [%s])' % (', '.join(map(str, g)), es))
        o.append('def self%s : List SelfGrp := [\n%s\n]\n' % (name[0].upper() + name[1:],
                                                              ',\n'.join(lines)))
    o.append('def selfIds : List (String × List SelfGrp) := [%s]\n' %
             ', '.join('(%s, self%s)' % (lean_str(n), n[0].upper() + n[1:]) for n, _, _ in TABLES))
    o.append('end PyCraft.Gen\n')
    return [(REL, '\n'.join(o))]


if __name__ == '__main__':
    root = os.path.join(os.path.dirname(os.path.dirname(os.path.dirname(os.path.abspath(__file__)))),
                        'lean')
    for rel, text in generate():
        path = os.path.join(root, rel)
        old = open(path).read() if os.path.exists(path) else None
        if old != text:
            os.makedirs(os.path.dirname(path), exist_ok=True)
            tmp = path + '.tmp%d' % os.getpid()
            with open(tmp, 'w') as f:
                f.write(text)
            os.replace(tmp, path)
            print('wrote', path)
        else:
            print('unchanged', path)
