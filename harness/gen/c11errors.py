"""Generator for lean/PyCraft/Generated/C11Errors.lean (property C11, audit gap 11).

Two tables computed by evaluating the LIVE code of /repo:

  discNamed : for every supported protocol version, the names of the classes in
              `clientbound.play.get_packets(context)` whose `packet_name` is "disconnect"
              (the read phase of `NetworkingThread._run` and `PlayingReactor.react` both test the
              NAME; the Lean model has one constructor `PlayEv.disconnect` for it).

  liveRuns  : observations of the REAL `NetworkingThread.run` (real `_run` with its literal caps
              300/50, real `Connection._pop_packet/_write_packet/_react/disconnect/
              _handle_exception/_handle_exit`, real `PlayingReactor.react`) in the play state on
                * a fake socket whose `send` raises BrokenPipeError for every `_write_packet` call
                  from the n-th on (n = None: never), and
                * a `read_packet` that serves prebuilt packet objects and returns None when they are
                  used up (and, once the queue is drained too, stops the otherwise idling thread by
                  setting `interrupt` — the model's "quiescent" stop).
              Row = (protocol_later_eq(107), n, inbox, observed result).  The Lean theorem
              `PyCraft.C11Errors.model_agrees_with_live_runs` re-checks on every run that the model
              `PlayErr.runLoop` computes exactly the observed result for every row; the scenarios
              straddle the decisive boundaries (disconnect packet just inside / just outside the
              read phase that follows a failed write phase, with and without successful writes in
              that write phase, which share the packet counter).

`generate()` -> [(path relative to /verif/lean, Lean source text)].
"""
import collections
import os
import sys

REL = 'PyCraft/Generated/C11Errors.lean'


def _minecraft():
    if 'minecraft' not in sys.modules:
        repo = os.environ.get('PYCRAFT_REPO', '/repo')
        if repo not in sys.path:
            sys.path.insert(0, repo)
    import minecraft
    return minecraft


# ------------------------------------------------------------------------------- table 1

def disc_named():
    minecraft = _minecraft()
    import minecraft.networking.connection as C
    from minecraft.networking.packets import clientbound as cb
    rows = []
    for v in minecraft.SUPPORTED_PROTOCOL_VERSIONS:
        cx = C.ConnectionContext(protocol_version=v)
        names = sorted(c.__name__ for c in cb.play.get_packets(cx)
                       if getattr(c, 'packet_name', None) == 'disconnect')
        rows.append((v, names))
    return rows


# ------------------------------------------------------------------------------- table 2

class _FakeSock(object):
    def __init__(self, fail_from, fails=None):
        self.fail_from, self.fails, self.attempt, self.cur = fail_from, fails, 0, None

    def begin(self):                 # a `_write_packet` call starts (early outgoing listener)
        self.cur = self.attempt
        self.attempt += 1

    def failing(self, k):
        if self.fails is not None:
            return bool(self.fails(k))
        return self.fail_from is not None and k >= self.fail_from

    def send(self, data):
        if self.failing(self.cur):
            raise BrokenPipeError(32, 'Broken pipe')
        return len(data)

    def shutdown(self, how):
        pass

    def close(self):
        pass


class _FakeFile(object):
    def close(self):
        pass


def _i(n):
    n = int(n)
    return '(%d)' % n if n < 0 else '%d' % n


def _ev_term(e):
    k = e[0]
    if k == 'ka':
        return '.keepAlive %d' % e[1]
    if k == 'pl':
        return '.posLook %s %s %s %s %s %d %d' % (_i(e[1]), _i(e[2]), _i(e[3]), _i(e[4]), _i(e[5]), e[6], e[7])
    if k == 'un':
        return '.unknown %d [%s]' % (e[1], ', '.join('%d' % b for b in e[2]))
    if k == 'ot':
        return '.other "%s"' % e[1]
    assert k == 'disc'
    return '.disconnect'


def _run_with_caps(C, capw, capr):
    """`NetworkingThread._run` re-compiled IN MEMORY with the literals 300/50 replaced (used only by
    the correspondence check for small caps, never by `generate()`)."""
    import inspect
    import textwrap
    src = textwrap.dedent(inspect.getsource(C.NetworkingThread._run))
    assert '>= 300' in src and '< 50 ' in src, 'the cap literals of _run have moved'
    src = src.replace('>= 300', '>= %d' % capw).replace('< 50 ', '< %d ' % capr)
    ns = {}
    exec(compile(src, '<_run caps %d/%d>' % (capw, capr), 'exec'), C.__dict__, ns)
    return ns['_run']


def driver_reply(res):
    """The reply `playerr.run` must give for an observation `res` of `observe`."""
    def sh(t):
        f = t.replace('(', '').replace(')', '').split()
        if f[0] == '.keepAlive':
            return 'ka:' + f[1]
        if f[0] == '.teleportConfirm':
            return 'tc:' + f[1]
        return 'pe:%s:%s:%s:%s:%s:%d' % (f[1], f[2], f[3], f[4], f[5], f[6] == 'true')
    j = lambda l: ','.join(sh(t) for t in l) or '-'
    return 'ok wire=%s lost=%s unsent=%s delivered=%d spawned=%d closed=%d exit=%d errors=%d' % (
        j(res['wire']), j(res['lost']), j(res['unsent']), len(res['delivered']), res['spawned'],
        res['closed'], res['exitCalls'], res['errors'])


def observe(version, fail_from, evs, fails=None, caps=None):
    """Run the real networking thread body on `evs`; returns (newer, result dict).
    `fails` (a predicate on the write number) overrides `fail_from`; `caps=(capw, capr)` runs a copy
    of `_run` with other cap literals (correspondence check only)."""
    _minecraft()
    import minecraft.networking.connection as C
    from minecraft.networking.packets import Packet, clientbound as cb, serverbound as sb
    calls, seen, wire, popped = [], [], [], []
    conn = C.Connection('h', 1, username='u',
                        handle_exception=lambda e, i: calls.append(('exc', type(e).__name__)),
                        handle_exit=lambda: calls.append(('exit',)))
    conn.context.protocol_version = version
    sock = _FakeSock(fail_from, fails)
    conn.socket, conn.file_object = sock, _FakeFile()
    conn._outgoing_packet_queue = collections.deque()
    conn.connected = True
    conn.spawned = False
    conn.reactor = C.PlayingReactor(conn)
    th = C.NetworkingThread(conn)
    conn.networking_thread = th

    def reply_term(p):
        if isinstance(p, sb.play.KeepAlivePacket):
            return '.keepAlive %d' % p.keep_alive_id
        if isinstance(p, sb.play.TeleportConfirmPacket):
            return '.teleportConfirm %d' % p.teleport_id
        if isinstance(p, sb.play.PositionAndLookPacket):
            return '.positionEcho %s %s %s %s %s %s' % (
                _i(p.x), _i(p.feet_y), _i(p.z), _i(p.yaw), _i(p.pitch), 'true' if p.on_ground else 'false')
        raise AssertionError('unexpected serverbound packet %r' % (p,))

    def seen_term(p):
        if type(p) is Packet:
            return '.unknown %d []' % p.id
        if isinstance(p, cb.play.KeepAlivePacket):
            return '.keepAlive %d' % p.keep_alive_id
        if isinstance(p, cb.play.PlayerPositionAndLookPacket):
            return '.posLook %s %s %s %s %s %d %d' % (_i(p.x), _i(p.y), _i(p.z), _i(p.yaw), _i(p.pitch),
                                                     p.flags, p.teleport_id)
        if p.packet_name == 'disconnect':
            return '.disconnect'
        return '.other "%s"' % p.packet_name

    conn.register_packet_listener(lambda p: (sock.begin(), popped.append(p)), Packet, early=True, outgoing=True)
    conn.register_packet_listener(lambda p: wire.append(p), Packet, outgoing=True)
    conn.register_packet_listener(lambda p: seen.append(seen_term(p)), Packet)
    inbox = []
    for e in evs:
        if e[0] == 'ka':
            p = cb.play.KeepAlivePacket()
            p.keep_alive_id = e[1]
        elif e[0] == 'pl':
            p = cb.play.PlayerPositionAndLookPacket()
            p.x, p.y, p.z, p.yaw, p.pitch, p.flags, p.teleport_id = e[1:]
        elif e[0] == 'un':
            p = Packet()
            p.id = e[1]
        elif e[0] == 'ot':
            p = cb.play.ChatMessagePacket()
            p.json_data, p.position = '{}', 0
            assert p.packet_name == e[1]
        else:
            p = cb.play.DisconnectPacket()
            p.json_data = '{}'
        p.context = conn.context
        inbox.append(p)

    def read_packet(stream, timeout=0):
        if inbox:
            return inbox.pop(0)
        if not conn._outgoing_packet_queue:
            th.interrupt = True          # quiescent: the real thread would idle in select()
        return None
    conn.reactor.read_packet = read_packet
    if caps is not None:
        th._run = _run_with_caps(C, *caps).__get__(th)
    th.run()                             # the real NetworkingThread.run, in this thread
    ok = [p for k, p in enumerate(popped) if not sock.failing(k)]
    assert [id(p) for p in ok] == [id(p) for p in wire], 'wire is not the successful writes'
    res = dict(
        wire=[reply_term(p) for p in wire],
        lost=[reply_term(p) for k, p in enumerate(popped) if sock.failing(k)],
        unsent=[reply_term(p) for p in conn._outgoing_packet_queue],
        delivered=seen, spawned=bool(conn.spawned), closed=conn.socket is None,
        exitCalls=calls.count(('exit',)), errors=len([c for c in calls if c[0] == 'exc']))
    return bool(conn.context.protocol_later_eq(107)), res


def scenarios():
    minecraft = _minecraft()
    sup = list(minecraft.SUPPORTED_PROTOCOL_VERSIONS)
    new = max(sup, key=minecraft.PROTOCOL_VERSION_INDICES.get)
    old = 47 if 47 in sup else min(sup, key=minecraft.PROTOCOL_VERSION_INDICES.get)

    def ka(n, base=0):
        return [('ka', base + i) for i in range(n)]
    mixed = [('ka', 1), ('pl', 10, 64, -3, 90, 0, 0, 7), ('un', 0x7e, [0xaa]), ('ot', 'chat message'), ('ka', 2)]
    D = [('disc',)]
    return [
        # no failing write
        (new, None, mixed + D + [('ka', 3)]),
        (old, None, mixed),
        # short session: only the (guarded) flush of disconnect() fails
        (new, 0, ka(10) + D),
        (old, 1, mixed + D),
        # a write PHASE fails (2nd iteration), the disconnect packet is read in the same iteration
        (new, 0, ka(50) + D),
        (new, 0, ka(50) + ka(49, 50) + D),          # it is the 50th packet of that read phase
        # ... one packet later: not read in that iteration -> the error is reported
        (new, 0, ka(50) + ka(50, 50) + D),
        # the successful writes of the failing write phase count against the read cap
        (new, 3, ka(50) + ka(46, 50) + D),
        (new, 3, ka(50) + ka(47, 50) + D),
        # a failing write and no disconnect packet at all
        (new, 2, ka(50)),
        (old, 0, [('pl', 1, 2, 3, 4, 5, 0, 9)] + ka(49)),
        # failure in a later write phase (4th iteration), disconnect first in its read phase
        (new, 60, ka(50) + ka(50, 50) + D),
    ]


def _list(items, per=6, indent='    '):
    if not items:
        return '[]'
    lines = [', '.join(items[i:i + per]) for i in range(0, len(items), per)]
    return '[' + (',\n' + indent).join(lines) + ']'


def generate():
    dn = disc_named()
    rows = []
    for version, fail_from, evs in scenarios():
        newer, r = observe(version, fail_from, evs)
        rows.append(
            '  (%s, %s,\n   %s,\n   { wire := %s,\n     lost := %s,\n     unsent := %s,\n     delivered := %s,\n'
            '     spawned := %s, closed := %s, exitCalls := %d, errors := %d })' % (
                'true' if newer else 'false', 'none' if fail_from is None else 'some %d' % fail_from,
                _list([_ev_term(e) for e in evs]), _list(r['wire'], indent='       '),
                _list(r['lost'], indent='       '), _list(r['unsent'], indent='       '),
                _list(r['delivered'], indent='       '),
                'true' if r['spawned'] else 'false', 'true' if r['closed'] else 'false',
                r['exitCalls'], r['errors']))
    out = [
        '/- GENERATED by harness/gen/c11errors.py from the LIVE code of /repo. Do not edit.',
        '   discNamed: (supported protocol version, names of the classes of',
        '              clientbound.play.get_packets(context) whose packet_name is "disconnect").',
        '   liveRuns : observations of the real NetworkingThread.run (literal caps 300/50) in the play',
        '              state on a fake socket whose send raises from the n-th _write_packet call on:',
        '              (protocol_later_eq(107), n, inbox, observed result). -/',
        'import PyCraft.Model.C11Errors',
        'namespace PyCraft.Gen.C11Errors',
        'open PyCraft PyCraft.Play',
        '',
        'def discNamed : List (Nat × List String) := ' + _list(
            ['(%d, [%s])' % (v, ', '.join('"%s"' % n for n in names)) for v, names in dn], per=4, indent='  '),
        '',
        'def liveRuns : List (Bool × Option Nat × List PlayEv × PlayErr.Result) := [',
        ',\n'.join(rows),
        ']',
        '',
        'end PyCraft.Gen.C11Errors',
        '',
    ]
    return [(REL, '\n'.join(out))]


if __name__ == '__main__':
    sys.dont_write_bytecode = True
    root = os.path.join(os.path.dirname(os.path.dirname(os.path.dirname(os.path.abspath(__file__)))),
                        'lean')
    for rel, text in generate():
        path = os.path.join(root, rel)
        old = open(path).read() if os.path.exists(path) else None
        if old != text:
            os.makedirs(os.path.dirname(path), exist_ok=True)
            with open(path, 'w') as f:
                f.write(text)
            print('wrote', path)
        else:
            print('unchanged', path)
