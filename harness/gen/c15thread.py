#!/venv/bin/python
"""Generator for lean/PyCraft/Generated/C15Thread.lean (property C15, audit gap 1): live facts of
/repo about WHO swallows an exception of the networking thread, tabulated for the Lean theorems of
`PyCraft/Props/C15Thread.lean`.

Everything below is obtained by EVALUATING the live code; nothing is copied from the Lean model.

 * `c15Classes`   : the exception classes probed (and every base class on their MROs, `object`
                    excluded), numbered 1.. in order of qualified name.
 * `c15Hier`      : the `(child, parent)` edges `cls.__bases__` among them.
 * `c15Eof`, `c15Exception`, `c15Refused` : the numbers of `EOFError`, `Exception`,
                    `ConnectionRefusedError`.
 * `c15SubEof`    : `(cls, issubclass(cls, EOFError))` for every numbered class (cross-check of the
                    edge list against Python's own `issubclass`).
 * `c15ReaderExc` : the class of the exception the REAL `PacketReactor.read_packet` raises on
                    (0) an exhausted stream, (1) a six-byte run of VarInt continuation bytes,
                    (2) a compressed frame whose body is not a zlib stream, (3) a compressed frame
                    whose announced size is wrong  —  the four ways the framing layer can fail
                    (`Err.eof`, `.tooLong`, `.zlib`, `.assertion` of `Model/Frame.lean`); and on
                    (4) a frame cut inside its body.
 * `c15Handle`    : for every reactor class x probed exception class x {fallback connect succeeds,
                    fallback connect raises ConnectionRefusedError}: the REAL
                    `Connection._handle_exception(exc, exc_info)` run on a real `Connection` object
                    whose `reactor` is a fresh instance of the reactor class, whose `connect` /
                    `disconnect` are recording stubs, with no user handlers and a recording final
                    handler.  Row =
                      (reactor kind 0=StatusReactor 1=PlayingStatusReactor 2=LoginReactor
                                    3=PlayingReactor,
                       exception class number, fallback fails 0/1,
                       swallowed 0/1   (nothing recorded on the connection, final handler not called),
                       version `connect()` was called with (the single member of
                         `allowed_proto_versions` at that moment; 0 = `connect()` not called),
                       class number of the exception the final handler received (0 = not called),
                       class number of `connection.exception` afterwards (0 = None)).
                    The connection is built with `allowed_versions={757, 756}` and
                    `initial_version=340`, so the documented fallback version is 340.
 * `c15Install`   : the reactor class `connect()` installs with one / two allowed versions and the
                    one `status()` installs, as kind numbers: rows (0, k) = `status()`,
                    (1, k) = `connect()` with one allowed version, (2, k) = with two.

`generate()` -> [(path relative to /verif/lean, Lean source text)].
"""
import io
import os
import struct
import sys
import zlib

sys.dont_write_bytecode = True

REL = 'PyCraft/Generated/C15Thread.lean'
DEFAULT = 340


def _modules():
    if 'minecraft' not in sys.modules:
        repo = os.environ.get('PYCRAFT_REPO', '/repo')
        if repo not in sys.path:
            sys.path.insert(0, repo)
    import minecraft.networking.connection as C
    import minecraft.exceptions as X
    return C, X


def _qual(cls):
    return cls.__module__ + '.' + cls.__qualname__


def _probed(X):
    named = [EOFError, ValueError, struct.error, TypeError, AssertionError, zlib.error, OSError,
             ConnectionRefusedError, KeyError, UnicodeDecodeError, Exception]
    for n in ('VersionMismatch', 'LoginDisconnect', 'InvalidState', 'YggdrasilError', 'IgnorePacket'):
        c = getattr(X, n, None)
        if isinstance(c, type) and issubclass(c, BaseException):
            named.append(c)
    return named


def _universe(probed):
    seen = []
    for c in probed:
        for b in c.__mro__:
            if b is object or b in seen:
                continue
            seen.append(b)
    seen.sort(key=_qual)
    return {c: i + 1 for i, c in enumerate(seen)}


def _instance(cls):
    if cls is UnicodeDecodeError:
        return UnicodeDecodeError('utf-8', b'\xff', 0, 1, 'probe')
    return cls('probe')


KINDS = ['StatusReactor', 'PlayingStatusReactor', 'LoginReactor', 'PlayingReactor']


class _FakeThread(object):
    interrupt = True


def _handle_rows(C, probed, num):
    rows = []
    for kind, rname in enumerate(KINDS):
        rcls = getattr(C, rname)
        for ecls in probed:
            for fails in (0, 1):
                conn = C.Connection('h', 1, username='u', allowed_versions={757, 756},
                                    initial_version=DEFAULT)
                calls = []

                def fake_connect(conn=conn, calls=calls, fails=fails):
                    al = sorted(conn.allowed_proto_versions)
                    calls.append(al[0] if len(al) == 1 else -1)
                    if fails:
                        raise ConnectionRefusedError('probe: refused')

                conn.connect = fake_connect
                conn.disconnect = lambda immediate=False: None
                conn.reactor = rcls(conn)
                conn.networking_thread = _FakeThread()
                got = []
                conn.handle_exception = lambda e, info, got=got: got.append(type(e))
                exc = _instance(ecls)
                try:
                    conn._handle_exception(exc, (type(exc), exc, None))
                    escaped = None
                except BaseException as e:          # must not happen with a callable final handler
                    escaped = type(e)
                if escaped is not None or len(calls) > 1 or len(got) > 1:
                    # not representable: give a row no model can match
                    rows.append((kind, num[ecls], fails, 9, 9, 9, 9))
                    continue
                recorded = type(conn.exception) if conn.exception is not None else None
                swallowed = 1 if (recorded is None and not got) else 0
                rows.append((kind, num[ecls], fails, swallowed,
                             (calls[0] if calls and calls[0] > 0 else (9 if calls else 0)),
                             num.get(got[0], 9) if got else 0,
                             num.get(recorded, 9) if recorded is not None else 0))
    return rows


def _reader_rows(C, num):
    """class of the exception `read_packet` raises on the four malformed/short streams"""
    real_select = C.select.select
    C.select.select = lambda r, w, x, timeout=None: (list(r), [], [])
    try:
        out = []
        bogus = b'\x01\x02\x03\x04'
        good = zlib.compress(b'\x00abc')
        cases = [
            (0, False, b''),
            (1, False, b'\x80\x80\x80\x80\x80\x80\x00'),
            (2, True, bytes([1 + len(bogus)]) + b'\x04' + bogus),
            (3, True, bytes([1 + len(good)]) + b'\x09' + good),
            (4, False, b'\x05\x00ab'),
        ]
        for code, comp, data in cases:
            conn = C.Connection('h', 1, username='u', allowed_versions={757})
            conn.options.compression_enabled = comp
            reactor = C.PlayingReactor(conn)
            try:
                class Bounded(io.BytesIO):      # a reader that spins on an ended stream must not hang the generator
                    n = 0

                    def read(self, k=-1):
                        Bounded.n += 1
                        if Bounded.n > 2000:
                            raise RuntimeError('read budget exhausted')
                        return io.BytesIO.read(self, k)
                Bounded.n = 0
                reactor.read_packet(Bounded(data), timeout=0)
                cls = None
            except BaseException as e:
                cls = type(e)
            out.append((code, num.get(cls, 0) if cls is not None else 0))
        return out
    finally:
        C.select.select = real_select


def _install_rows(C):
    rows = []
    kind_of = {n: i for i, n in enumerate(KINDS)}
    for tag, allowed, api in ((0, {757, 756}, 'status'), (1, {757}, 'connect'), (2, {757, 756}, 'connect')):
        conn = C.Connection('h', 1, username='u', allowed_versions=allowed)
        conn._connect = lambda: None
        conn._start_network_thread = lambda: None
        conn.write_packet = lambda packet, force=False: None
        try:
            getattr(conn, api)()
            k = kind_of.get(type(conn.reactor).__name__, 9)
        except BaseException:
            k = 9
        rows.append((tag, k))
    return rows


def _rows(rows, per_line=6):
    lines = []
    for i in range(0, len(rows), per_line):
        lines.append('  ' + ', '.join('(' + ', '.join(str(v) for v in r) + ')' for r in rows[i:i + per_line]))
    return '[\n' + ',\n'.join(lines) + ']'


def generate():
    C, X = _modules()
    probed = _probed(X)
    num = _universe(probed)
    classes = sorted(num.items(), key=lambda kv: kv[1])
    edges = []
    for c, i in classes:
        for b in c.__bases__:
            if b in num:
                edges.append((i, num[b]))
    sub_eof = [(i, 1 if issubclass(c, EOFError) else 0) for c, i in classes]
    handle = _handle_rows(C, probed, num)
    reader = _reader_rows(C, num)
    install = _install_rows(C)
    txt = []
    txt.append('/- GENERATED by harness/gen/c15thread.py from the live code of /repo. Do not edit.\n'
               '   Who swallows an exception of the networking thread: the real `_handle_exception` run\n'
               '   for every reactor class x exception class x outcome of the fallback `connect()`;\n'
               '   the exception classes `read_packet` raises; the class hierarchy involved.\n'
               '   Row formats: see the docstring of the generator. -/\n')
    txt.append('namespace PyCraft.Gen\n')
    txt.append('def c15Classes : List (Nat × String) := [\n' +
               ',\n'.join('  (%d, "%s")' % (i, _qual(c)) for c, i in classes) + ']\n')
    txt.append('def c15Hier : List (Nat × Nat) := ' + _rows(edges, 10) + '\n')
    txt.append('def c15Eof : Nat := %d' % num[EOFError])
    txt.append('def c15Exception : Nat := %d' % num[Exception])
    txt.append('def c15Refused : Nat := %d' % num[ConnectionRefusedError])
    txt.append('def c15Default : Nat := %d\n' % DEFAULT)
    txt.append('def c15SubEof : List (Nat × Nat) := ' + _rows(sub_eof, 10) + '\n')
    txt.append('def c15ReaderExc : List (Nat × Nat) := ' + _rows(reader, 10) + '\n')
    txt.append('def c15Install : List (Nat × Nat) := ' + _rows(install, 10) + '\n')
    txt.append('def c15Handle : List (Nat × Nat × Nat × Nat × Nat × Nat × Nat) := ' + _rows(handle, 5) + '\n')
    txt.append('end PyCraft.Gen\n')
    return [(REL, '\n'.join(txt))]


if __name__ == '__main__':
    base = os.path.join(os.path.dirname(os.path.dirname(os.path.dirname(os.path.abspath(__file__)))), 'lean')
    for rel, text in generate():
        path = os.path.join(base, rel)
        old = open(path).read() if os.path.exists(path) else None
        if old != text:
            os.makedirs(os.path.dirname(path), exist_ok=True)
            with open(path, 'w') as f:
                f.write(text)
            print('wrote', path)
        else:
            print('unchanged', path)
