"""Generator for lean/PyCraft/Generated/C08Live.lean (property C08, audit gap 25 (d): the version
tables are shared BY REFERENCE between `minecraft`, `minecraft.utility` and
`minecraft.networking.connection`).

Everything tabulated is OBSERVED by running the live code; nothing is copied from the Lean model.
For each history of `HISTORIES` a FRESH interpreter imports the library (`import
minecraft.networking.connection`, shipped records), then performs, through the public objects only,

    KNOWN_MINECRAFT_VERSION_RECORDS[:] = <records of the history>;  initglobals(use_known_records=True)

followed by the history's actions, and reports: the answers of the context-predicate calls
(`KeyError` -> K), the seven tables as module `minecraft` shows them, `utility.PROTOCOL_VERSION_INDICES`,
the four tables as module `connection` shows them, and the `is` tests between the modules' objects.

Actions (JSON lists; the Lean constructor in brackets):
    ["R", [[id, protocol, supported], ...]]   in-place replacement of the record list      [Op.setRecords]
    ["S", id, protocol]                       minecraft.SUPPORTED_MINECRAFT_VERSIONS[id] = protocol [Op.supSet]
    ["I", bool]                               minecraft.initglobals(use_known_records=bool)  [Op.init]
    ["N", pv | None]                          ConnectionContext(protocol_version=pv)          [Op.newCtx]
    ["P", c, pv | None]                       context number c: .protocol_version = pv        [Op.setPv]
    ["C", c, pred, a, b]                      context number c: protocol_<pred>(a) / protocol_in_range(a, b)  [Op.call]

`generate()` -> [(path relative to /verif/lean, Lean source text)].
Other entry points (used for cross-checking the Lean driver command `verref.run`):
    observe(recs, ops, repo=None)   -> dict, the observation of one history on the code in `repo`
    request(code, recs, ops)        -> the `verref.run` request line
    reply(obs)                      -> the reply the driver must give
    selfcheck(driver, repo=None, code='real', n=300, seed=1, from_import=False) -> random histories through both
Run: /venv/bin/python /verif/harness/gen/c08live.py            (PYCRAFT_REPO overrides /repo)
"""
import json
import os
import random
import subprocess
import sys

REL = 'PyCraft/Generated/C08Live.lean'
REPO = os.environ.get('PYCRAFT_REPO', '/repo')
PRE = 1 << 30
PREDS = ('earlier', 'earlier_eq', 'later', 'later_eq', 'in_range')

CHILD = r'''
import json, sys
sys.path.insert(0, sys.argv[1])
import minecraft as m
import minecraft.networking.connection as c
import minecraft.utility as u

def run(recs, ops):
    V = m.Version
    m.KNOWN_MINECRAFT_VERSION_RECORDS[:] = [V(r[0], r[1], bool(r[2])) for r in recs]
    m.initglobals(use_known_records=True)
    ctxs, answers = [], []
    for op in ops:
        k = op[0]
        if k == 'R':
            m.KNOWN_MINECRAFT_VERSION_RECORDS[:] = [V(r[0], r[1], bool(r[2])) for r in op[1]]
        elif k == 'S':
            m.SUPPORTED_MINECRAFT_VERSIONS[op[1]] = op[2]
        elif k == 'I':
            m.initglobals(use_known_records=bool(op[1]))
        elif k == 'N':
            ctxs.append(c.ConnectionContext(protocol_version=op[1]))
        elif k == 'P':
            if op[1] < len(ctxs):
                ctxs[op[1]].protocol_version = op[2]
        elif k == 'C':
            if op[1] < len(ctxs):
                ctx, pred, a, b = ctxs[op[1]], op[2], op[3], op[4]
                try:
                    r = ctx.protocol_in_range(a, b) if pred == 'in_range' \
                        else getattr(ctx, 'protocol_' + pred)(a)
                    assert r is True or r is False, r
                    answers.append(1 if r else 0)
                except KeyError:
                    answers.append('K')
        else:
            raise ValueError(op)
    return {
        'answers': answers,
        'known': list(m.KNOWN_MINECRAFT_VERSIONS.items()),
        'kp': list(m.KNOWN_PROTOCOL_VERSIONS),
        'sv': list(m.SUPPORTED_MINECRAFT_VERSIONS.items()),
        'idx': list(m.PROTOCOL_VERSION_INDICES.items()),
        'sp': list(m.SUPPORTED_PROTOCOL_VERSIONS),
        'rv': list(m.RELEASE_MINECRAFT_VERSIONS.items()),
        'rp': list(m.RELEASE_PROTOCOL_VERSIONS),
        'uidx': list(u.PROTOCOL_VERSION_INDICES.items()),
        'cknown': list(c.KNOWN_MINECRAFT_VERSIONS.items()),
        'csv': list(c.SUPPORTED_MINECRAFT_VERSIONS.items()),
        'csp': list(c.SUPPORTED_PROTOCOL_VERSIONS),
        'cidx': list(c.PROTOCOL_VERSION_INDICES.items()),
        'usame': u.PROTOCOL_VERSION_INDICES is m.PROTOCOL_VERSION_INDICES,
        'csame': (c.KNOWN_MINECRAFT_VERSIONS is m.KNOWN_MINECRAFT_VERSIONS
                  and c.SUPPORTED_MINECRAFT_VERSIONS is m.SUPPORTED_MINECRAFT_VERSIONS
                  and c.SUPPORTED_PROTOCOL_VERSIONS is m.SUPPORTED_PROTOCOL_VERSIONS
                  and c.PROTOCOL_VERSION_INDICES is m.PROTOCOL_VERSION_INDICES),
    }

job = json.load(sys.stdin)
print(json.dumps(run(job['recs'], job['ops'])))
'''


def observe(recs, ops, repo=None):
    """one history on a fresh interpreter"""
    env = dict(os.environ, PYTHONDONTWRITEBYTECODE='1')
    p = subprocess.run([sys.executable, '-c', CHILD, repo or REPO],
                       input=json.dumps({'recs': recs, 'ops': ops}), capture_output=True,
                       text=True, env=env, cwd='/tmp')
    if p.returncode != 0:
        raise RuntimeError('live run failed: %s' % p.stderr)
    return json.loads(p.stdout.strip().splitlines()[-1])


# ------------------------------------------------------------------------------- histories

def R(*recs):
    return [list(r) for r in recs]


A4 = R(('a', 10, True), ('b', 20, True), ('c', 30, False), ('d', 40, True))

HISTORIES = [
    # an extension at the end, compared through contexts made before and after (seeded C08-m2)
    (R(('1.17', 755, True), ('1.18', 757, True)),
     [['N', 757], ['C', 0, 'later', 755, 0],
      ['R', R(('1.17', 755, True), ('1.18', 757, True), ('1.19', 759, True))], ['I', True],
      ['N', 759], ['C', 1, 'later', 757, 0], ['C', 0, 'earlier', 759, 0],
      ['C', 1, 'in_range', 755, 759], ['C', 0, 'in_range', 755, 759]]),
    # an insertion in the middle, observed by a context that was used before (seeded C08-m3)
    (A4,
     [['N', 20], ['C', 0, 'earlier', 30, 0],
      ['R', R(('a', 10, True), ('x', 15, False), ('b', 20, True), ('c', 30, False), ('d', 40, True))],
      ['I', True],
      ['C', 0, 'earlier', 20, 0], ['C', 0, 'later_eq', 20, 0], ['C', 0, 'in_range', 20, 30],
      ['C', 0, 'earlier_eq', 15, 0], ['C', 0, 'later_eq', 15, 0], ['C', 0, 'later', 15, 0]]),
    # backward-compatible mode: the user adds a supported version and calls initglobals()
    (R(('1.17', 755, True), ('21w44a', PRE | 48, False), ('1.18', 757, True)),
     [['S', '1.20', 763], ['N', 757], ['I', False], ['C', 0, 'earlier', 763, 0],
      ['C', 0, 'later', PRE | 48, 0], ['S', '1.17', 756], ['I', False], ['I', True]]),
    # protocol_version=None, reassignment of the version
    (A4,
     [['N', None], ['C', 0, 'earlier', 10, 0], ['C', 0, 'later', 99, 0], ['C', 0, 'in_range', 10, 40],
      ['P', 0, 30], ['C', 0, 'in_range', 10, 40], ['C', 0, 'later_eq', 30, 0], ['P', 0, 99],
      ['C', 0, 'earlier_eq', 10, 0], ['P', 0, 10], ['C', 0, 'earlier_eq', 10, 0]]),
    # repeated ids and protocols, snapshot ids, a release id with a trailing newline
    (R(('1.17', 755, True), ('21w44a', PRE | 48, False), ('1.18-rc4', PRE | 60, True),
       ('1.18', 757, True), ('1.18.1', 757, True), ('1.18', 758, False), ('1.17', 756, True),
       ('1.19\n', 759, True)),
     [['N', 757], ['C', 0, 'later', PRE | 60, 0], ['C', 0, 'earlier', 756, 0],
      ['C', 0, 'in_range', PRE | 48, 758]]),
    # records removed: old numbers disappear for everybody
    (A4,
     [['N', 40], ['C', 0, 'later', 30, 0], ['R', R(('a', 10, True), ('d', 40, True))], ['I', True],
      ['C', 0, 'later', 30, 0], ['C', 0, 'later', 10, 0], ['C', 0, 'in_range', 30, 10],
      ['C', 0, 'in_range', 30, 40]]),
    # an in-place edit of the supported dict is wiped by initglobals(True)
    (A4, [['S', 'zz', 77], ['S', 'a', 11], ['I', True], ['N', 10], ['C', 0, 'earlier', 77, 0]]),
    # editing the records has no effect before re-initialisation; initglobals() does not read them
    (A4,
     [['N', 10], ['R', R(('d', 40, True), ('a', 10, True))], ['C', 0, 'earlier', 40, 0], ['I', False],
      ['C', 0, 'earlier', 40, 0], ['I', True], ['C', 0, 'earlier', 40, 0], ['C', 0, 'later', 20, 0]]),
    # no records at all
    ([], [['N', 5], ['C', 0, 'earlier_eq', 5, 0], ['S', '1.1', 5], ['I', False], ['C', 0, 'earlier_eq', 5, 0]]),
    # reversal of the list: every old context sees the new order
    (A4,
     [['N', 10], ['N', 40], ['C', 0, 'earlier', 40, 0], ['C', 1, 'earlier', 10, 0],
      ['R', list(reversed(A4))], ['I', True], ['C', 0, 'earlier', 40, 0], ['C', 1, 'earlier', 10, 0],
      ['C', 1, 'in_range', 40, 10], ['C', 0, 'in_range', 40, 10]]),
]


def random_history(rng):
    pool = [10, 20, 30, 40, 50, PRE | 1, PRE | 2]
    ids = ['1.1', '1.2', '1.2.3', '20w01a', '1.3-pre1', 'x', '1.4\n']

    def recs():
        return [[rng.choice(ids), rng.choice(pool), rng.random() < 0.6] for _ in range(rng.randrange(0, 6))]
    ops, nctx = [], 0
    for _ in range(rng.randrange(3, 10)):
        k = rng.choice('RSIINPCCCC')
        if k == 'R':
            ops.append(['R', recs()])
        elif k == 'S':
            ops.append(['S', rng.choice(ids), rng.choice(pool)])
        elif k == 'I':
            ops.append(['I', rng.random() < 0.7])
        elif k == 'N':
            ops.append(['N', rng.choice(pool + [None])])
            nctx += 1
        elif k == 'P':
            ops.append(['P', rng.randrange(0, nctx + 1), rng.choice(pool + [None])])
        else:
            ops.append(['C', rng.randrange(0, nctx + 1), rng.choice(PREDS), rng.choice(pool), rng.choice(pool)])
    return recs(), ops


def histories():
    rng = random.Random(808)
    return HISTORIES + [random_history(rng) for _ in range(14)]


# ------------------------------------------------------------------------------- driver protocol

def _hexid(s):
    return s.encode('utf-8').hex() or '-'


def _recs_tok(recs):
    return ','.join('%s:%d:%d' % (_hexid(r[0]), r[1], 1 if r[2] else 0) for r in recs) or '-'


def _pv(pv):
    return 'none' if pv is None else str(pv)


def request(code, recs, ops):
    toks = ['verref.run', code, _recs_tok(recs)]
    for op in ops:
        k = op[0]
        toks.append({'R': lambda: 'R=' + _recs_tok(op[1]),
                     'S': lambda: 'S=%s:%d' % (_hexid(op[1]), op[2]),
                     'I': lambda: 'I1' if op[1] else 'I0',
                     'N': lambda: 'N=' + _pv(op[1]),
                     'P': lambda: 'P=%d:%s' % (op[1], _pv(op[2])),
                     'C': lambda: 'C=%d:%s:%d:%d' % (op[1], op[2], op[3], op[4])}[k]())
    return ' '.join(toks)


def reply(o):
    def od(d):
        return ','.join('%s:%d' % (_hexid(k), v) for k, v in d) or '-'

    def nats(l):
        return ','.join(str(x) for x in l) or '-'

    def idx(d):
        return ','.join('%d:%d' % (k, v) for k, v in d) or '-'
    return ('ok ans=%s known=%s kp=%s sv=%s idx=%s sp=%s rv=%s rp=%s uidx=%s cknown=%s csv=%s csp=%s '
            'cidx=%s usame=%d csame=%d' % (
                ','.join(str(a) for a in o['answers']) or '-', od(o['known']), nats(o['kp']), od(o['sv']),
                idx(o['idx']), nats(o['sp']), od(o['rv']), nats(o['rp']), idx(o['uidx']), od(o['cknown']),
                od(o['csv']), nats(o['csp']), idx(o['cidx']), o['usame'], o['csame']))


def shipped_records(repo=None):
    """the record list the library in `repo` is imported with"""
    code = ('import sys, json; sys.path.insert(0, sys.argv[1]); import minecraft as m; '
            'print(json.dumps([[r.id, r.protocol, bool(r.supported)] for r in m.KNOWN_MINECRAFT_VERSION_RECORDS]))')
    p = subprocess.run([sys.executable, '-c', code, repo or REPO], capture_output=True, text=True, cwd='/tmp',
                       env=dict(os.environ, PYTHONDONTWRITEBYTECODE='1'))
    if p.returncode != 0:
        raise RuntimeError(p.stderr)
    return json.loads(p.stdout)


def selfcheck(driver, repo=None, code='real', n=300, seed=1, from_import=False):
    """random histories through the real code (in `repo`) and through the driver binary.
    from_import=False: the driver is asked for the model imported with the history's records
    (`verref.run <code> <recs> <ops>`; equivalent for the real code).  from_import=True: the driver is
    asked for exactly what the live side does: the model imported with the SHIPPED records, then
    `R=<recs> I1 <ops>` (needed for code='m2', where the import-time dict stays with `utility`)."""
    rng = random.Random(seed)
    hs = histories() + [random_history(rng) for _ in range(n)]
    if from_import:
        ship = shipped_records(repo)
        reqs = [request(code, ship, [['R', r], ['I', True]] + o) for r, o in hs]
    else:
        reqs = [request(code, r, o) for r, o in hs]
    p = subprocess.run([driver], input='\n'.join(reqs) + '\n', capture_output=True, text=True)
    got = p.stdout.splitlines()
    bad = 0
    for (r, o), q, g in zip(hs, reqs, got):
        want = reply(observe(r, o, repo))
        if want != g:
            bad += 1
            print('MISMATCH\n  %s\n  live:  %s\n  model: %s' % (q[-300:], want[:300], g[:300]))
    print('%d histories, %d mismatches' % (len(hs), bad))
    return bad


# ------------------------------------------------------------------------------- Lean rendering

def lstr(s):
    out = ['"']
    for ch in s:
        if ch in '"\\':
            out.append('\\' + ch)
        elif 32 <= ord(ch) < 127:
            out.append(ch)
        elif ch == '\n':
            out.append('\\n')
        elif ord(ch) <= 0xffff:
            out.append('\\u%04x' % ord(ch))
        else:
            out.append(ch)
    out.append('"')
    return ''.join(out)


def lbool(b):
    return 'true' if b else 'false'


def lrecs(recs):
    return '[%s]' % ', '.join('⟨%s, %d, %s⟩' % (lstr(r[0]), r[1], lbool(r[2])) for r in recs)


def lopt(pv):
    return 'none' if pv is None else '(some %d)' % pv


LPRED = {'earlier': '.earlier', 'earlier_eq': '.earlierEq', 'later': '.later', 'later_eq': '.laterEq',
         'in_range': '.inRange'}


def lop(op):
    k = op[0]
    if k == 'R':
        return '.setRecords %s' % lrecs(op[1])
    if k == 'S':
        return '.supSet %s %d' % (lstr(op[1]), op[2])
    if k == 'I':
        return '.init %s' % lbool(op[1])
    if k == 'N':
        return '.newCtx %s' % lopt(op[1])
    if k == 'P':
        return '.setPv %d %s' % (op[1], lopt(op[2]))
    return '.call %d %s %d %d' % (op[1], LPRED[op[2]], op[3], op[4])


def lod(d):
    return '[%s]' % ', '.join('(%s, %d)' % (lstr(k), v) for k, v in d)


def lnats(l):
    return '[%s]' % ', '.join(str(x) for x in l)


def lidx(d):
    return '[%s]' % ', '.join('(%d, %d)' % (k, v) for k, v in d)


def lobs(o):
    ans = '[%s]' % ', '.join('.error .other' if a == 'K' else '.ok %s' % lbool(a) for a in o['answers'])
    return ('{ answers := %s,\n'
            '     mcTables := { knownVersions := %s, knownProtocols := %s, supportedVersions := %s,\n'
            '                   indices := %s, supportedProtocols := %s, releaseVersions := %s,\n'
            '                   releaseProtocols := %s },\n'
            '     utilIdx := %s,\n     connKnown := %s,\n     connSupported := %s,\n'
            '     connSupportedProtocols := %s,\n     connIdx := %s,\n     utilSame := %s, connSame := %s }'
            % (ans, lod(o['known']), lnats(o['kp']), lod(o['sv']), lidx(o['idx']), lnats(o['sp']),
               lod(o['rv']), lnats(o['rp']), lidx(o['uidx']), lod(o['cknown']), lod(o['csv']),
               lnats(o['csp']), lidx(o['cidx']), lbool(o['usame']), lbool(o['csame'])))


def render():
    rows = []
    for recs, ops in histories():
        o = observe(recs, ops)
        rows.append('  (%s,\n   [%s],\n   %s)' % (lrecs(recs), ',\n    '.join(lop(op) for op in ops), lobs(o)))
    return '\n'.join([
        '/- GENERATED by harness/gen/c08live.py from the live code of the repository: histories of',
        '   run-time edits of the version records / re-initialisations / context-predicate calls, each',
        '   performed on a fresh interpreter after `import minecraft.networking.connection`, and what',
        '   the three modules showed at the end.  Do not edit. -/',
        'import PyCraft.Model.C08Live',
        'namespace PyCraft.Gen.C08Live',
        'open PyCraft PyCraft.VerRef',
        '',
        '/-- (records installed right after the import by `KNOWN_MINECRAFT_VERSION_RECORDS[:] = …;',
        'initglobals(use_known_records=True)`, the actions, the observation of the real code) -/',
        'def liveRuns : List (List Rec × List Op × Obs) := [',
        ',\n'.join(rows),
        ']',
        '',
        'end PyCraft.Gen.C08Live',
        ''])


def generate():
    return [(REL, render())]


if __name__ == '__main__':
    root = os.path.join(os.path.dirname(os.path.dirname(os.path.dirname(os.path.abspath(__file__)))), 'lean')
    for rel, text in generate():
        path = os.path.join(root, rel)
        old = open(path).read() if os.path.exists(path) else None
        if old != text:
            os.makedirs(os.path.dirname(path), exist_ok=True)
            with open(path, 'w') as f:
                f.write(text)
            print('wrote', path)
        else:
            print('unchanged', path)
