"""C13, registration flags -> ROLE of a listener, and "every packet dispatched once" (audit gap 17).

Everything here is OBSERVED by running the live `minecraft.networking.connection.Connection` (no
network: the socket is a dummy, the reactor a stub, packets are instances of small probe subclasses
of the real `Packet` whose `write` only logs) -- single threaded, one call at a time:

* `liveTargets`  -- for each of the 9 ways of passing `early=` / `outgoing=` (omitted / False / True)
  which of the four listener lists `register_packet_listener` (connection.py l.248-278) appended to;
* `liveRuns`     -- a fixed interleaved sequence of real `register_packet_listener` calls (two
  matching listeners per flag combination plus a non-matching one), then one real `_react(pkt)`
  (l.575-583) and one real `_write_packet(pkt)` (l.333-348), for every choice of the one callback
  that raises `IgnorePacket` (none / each listener / the built-in reaction): the order in which the
  callbacks, `reactor.react` and `packet.write` were entered;
* `liveSessions` -- a few whole sessions (`register_packet_listener`, `write_packet(force=…)`,
  `_pop_packet`, the flush loop of `disconnect`, packets arriving, whole iterations of the real
  `NetworkingThread._run`) with every `write_packet`, `_write_packet` and `_react` call recorded.

Emits lean/PyCraft/Generated/C13Roles.lean; `Props/C13Roles.lean` proves (by `decide +kernel`) that
the model reproduces every row.  The same probe (`Probe`, `run_session`, `render`) is what the
driver command `roles.session` is to be compared with on random sessions (`selfcheck`).

Run: /venv/bin/python /verif/harness/gen/c13roles.py [--selfcheck N]   (PYCRAFT_REPO overrides /repo)
"""
import os
import sys

HARNESS = os.path.dirname(os.path.dirname(os.path.abspath(__file__)))
if HARNESS not in sys.path:
    sys.path.insert(0, HARNESS)
REPO = os.environ.get('PYCRAFT_REPO', '/repo')
if REPO not in sys.path:
    sys.path.insert(0, REPO)
sys.dont_write_bytecode = True

LISTS = ['packet_listeners', 'early_packet_listeners', 'outgoing_packet_listeners',
         'early_outgoing_packet_listeners']


def _mods():
    import minecraft.networking.connection as C
    from minecraft.networking.packets import Packet
    from minecraft.exceptions import IgnorePacket
    return C, Packet, IgnorePacket


def probe_classes():
    """class number -> live class: 1 = the real Packet, 2 = K2(Packet), 3 = K3(K2), 4 = K4(Packet),
    5 = K5(K3, K4) (a diamond).  `write` is the only thing overridden."""
    _, Packet, _ = _mods()

    def write(self, socket, compression_threshold=None):
        self._probe.cur[-1].append('W')
    K2 = type('K2', (Packet,), {'write': write, 'packet_name': 'k2'})
    K3 = type('K3', (K2,), {'packet_name': 'k3'})
    K4 = type('K4', (Packet,), {'write': write, 'packet_name': 'k4'})
    K5 = type('K5', (K3, K4), {'packet_name': 'k5'})
    return {1: Packet, 2: K2, 3: K3, 4: K4, 5: K5}


def hier_edges(classes):
    """(child, parent) pairs read off the live `__bases__`."""
    num = {c: n for n, c in classes.items()}
    return [(n, num[b]) for n, c in sorted(classes.items()) for b in c.__bases__ if b in num]


class Probe(object):
    """A live Connection with every call of interest recorded in `self.trace`:
    ('G', id) | ('I', force, uid, cls) | ('O', 'f'|'p', uid, cls, log) | ('N', uid, cls, log, ignored)
    where log = list of 'e<id>'/'o<id>' (a callback was entered; e/o = the `early` flag it was
    REGISTERED with), 'R' (reactor.react entered), 'W' (packet.write entered)."""

    def __init__(self, reactor_writes=None, reactor_ignores=(), classes=None):
        C, Packet, IgnorePacket = _mods()
        self.C, self.IgnorePacket = C, IgnorePacket
        self.classes = classes or probe_classes()
        self.trace = []
        self.cur = []            # stack of logs of the dispatches in progress
        self.inbox = []
        self.in_pop = False
        self.in_react = False
        self.run_entries = 0
        self.thread = None
        self.listeners = {}
        conn = self.conn = C.Connection('localhost', 25565, username='u')
        # what `_connect` (connection.py l.437-455) sets up, minus the real socket
        import collections
        conn._outgoing_packet_queue = collections.deque()
        conn.socket = object()
        conn.file_object = object()
        conn.connected = True
        conn.options.compression_enabled = False
        probe = self
        rw = reactor_writes or {}

        class StubReactor(object):
            def react(self, packet):
                probe.cur[-1].append('R')
                for (uid, cls, force) in rw.get(packet._cls, []):
                    conn.write_packet(probe.packet(uid, cls), force=force)
                if packet._cls in reactor_ignores:
                    probe.cur[-1].append('!')       # `_react` is about to swallow an IgnorePacket
                    raise IgnorePacket

            def read_packet(self, stream, timeout=0):
                return probe.inbox.pop(0) if probe.inbox else None

            def handle_exception(self, exc, exc_info):
                return False
        conn.reactor = StubReactor()

        class Lock(object):
            def __enter__(self):
                if probe.thread is not None and not probe.in_react:
                    probe.run_entries += 1
                    if probe.run_entries >= 2:      # second iteration of `_run`: stop it
                        probe.thread.interrupt = True
                return self

            def __exit__(self, *a):
                return False
        conn._write_lock = Lock()

        o_write_packet, o_raw, o_pop, o_react = (conn.write_packet, conn._write_packet, conn._pop_packet,
                                                 conn._react)

        def write_packet(packet, force=False):
            probe.trace.append(('I', bool(force), packet._uid, packet._cls))
            return o_write_packet(packet, force=force) if force else o_write_packet(packet)

        def _write_packet(packet):
            site = 'p' if probe.in_pop else 'f'
            was, probe.in_pop = probe.in_pop, False
            probe.cur.append([])
            try:
                return o_raw(packet)
            finally:
                probe.trace.append(('O', site, packet._uid, packet._cls, probe.cur.pop()))
                probe.in_pop = was

        def _pop_packet():
            probe.in_pop = True
            try:
                return o_pop()
            finally:
                probe.in_pop = False

        def _react(packet):
            was, probe.in_react = probe.in_react, True
            probe.cur.append([])
            try:
                return o_react(packet)
            finally:
                log = probe.cur.pop()
                probe.trace.append(('N', packet._uid, packet._cls, [x for x in log if x != '!'], '!' in log))
                probe.in_react = was
        conn.write_packet, conn._write_packet, conn._pop_packet, conn._react = (
            write_packet, _write_packet, _pop_packet, _react)

    def packet(self, uid, cls):
        p = self.classes[cls]()
        p._uid, p._cls, p._probe = uid, cls, self
        return p

    def lists(self):
        """the four live lists as [(id, types, ign)…], in list order"""
        return {n: [(l.callback._lid,) + self.listeners[l.callback._lid] for l in getattr(self.conn, n)]
                for n in LISTS}

    # ---- the operations
    def register(self, lid, types, ign, early, outgoing, kw=None):
        probe, IgnorePacket = self, self.IgnorePacket
        tag = ('e' if early else 'o') + str(lid)

        def cb(packet):
            probe.cur[-1].append(tag)
            if ign:
                if probe.in_react and len(probe.cur) == 1:
                    probe.cur[-1].append('!')       # `_react` (not a nested `_write_packet`) swallows it
                raise IgnorePacket
        cb._lid = lid
        self.listeners[lid] = (list(types), bool(ign))
        kw = {'early': early, 'outgoing': outgoing} if kw is None else kw
        self.conn.register_packet_listener(cb, *[self.classes[t] for t in types], **kw)
        self.trace.append(('G', lid))

    def write(self, uid, cls, force):
        self.conn.write_packet(self.packet(uid, cls), force=force)

    def pop(self):
        return self.conn._pop_packet()

    def flush(self):
        # the loop of Connection.disconnect, connection.py l.467-468
        while self.conn._pop_packet():
            pass

    def arrive(self, pkts):
        self.inbox.extend(self.packet(u, c) for u, c in pkts)

    def iterate(self):
        """exactly one iteration of the real NetworkingThread._run (the lock stub sets `interrupt` when
        `_run` comes round to its second `with self.connection._write_lock:`)."""
        t = self.thread = self.C.NetworkingThread(self.conn)
        self.run_entries = 0
        try:
            t._run()
        finally:
            self.thread = None


def run_session(reactor_writes, reactor_ignores, ops):
    """ops: ('R', id, types, ign, early, outgoing) | ('W', uid, cls, force) | ('P',) | ('F',) |
    ('A', [(uid, cls)…]) | ('I',)"""
    pr = Probe(reactor_writes, reactor_ignores)
    for op in ops:
        if op[0] == 'R':
            pr.register(*op[1:])
        elif op[0] == 'W':
            pr.write(*op[1:])
        elif op[0] == 'P':
            pr.pop()
        elif op[0] == 'F':
            pr.flush()
        elif op[0] == 'A':
            pr.arrive(op[1])
        elif op[0] == 'I':
            pr.iterate()
    queue = [(p._uid, p._cls) for p in pr.conn._outgoing_packet_queue]
    inbox = [(p._uid, p._cls) for p in pr.inbox]
    return pr.trace, queue, inbox, pr.lists()


# ------------------------------------------------------------------ line protocol (driver `roles.session`)
def _pk(u, c):
    return '%d.%d' % (u, c)


def _pks(ps):
    return '+'.join(_pk(u, c) for u, c in ps) or '-'


def render(trace, queue, inbox, lists=None):
    out = []
    for e in trace:
        if e[0] == 'G':
            out.append('G%d' % e[1])
        elif e[0] == 'I':
            out.append('I%d:%s' % (e[1], _pk(e[2], e[3])))
        elif e[0] == 'O':
            out.append('O%s:%s[%s]' % (e[1], _pk(e[2], e[3]), ','.join(e[4])))
        else:
            out.append('N:%s[%s]%s' % (_pk(e[1], e[2]), ','.join(e[3]), '!' if e[4] else ''))
    return 'ok %s queue=%s inbox=%s' % (';'.join(out) or '-', _pks(queue), _pks(inbox))


def request(hier, reactor_writes, reactor_ignores, ops, cap_w=300, cap_r=50):
    h = ','.join('%d:%d' % e for e in hier) or '-'
    r = ['%d>%s' % (c, '+'.join('%d.%d.%d' % (u, k, f) for u, k, f in ws)) for c, ws in sorted(reactor_writes.items()) if ws]
    r += ['%d!' % c for c in sorted(reactor_ignores)]
    toks = ['roles.session', h, ','.join(r) or '-', str(cap_w), str(cap_r)]
    for op in ops:
        if op[0] == 'R':
            _, lid, types, ign, early, outgoing = op
            toks.append('R%d%d:%d/%s/%d' % (early, outgoing, lid, '+'.join(map(str, types)) or '_', ign))
        elif op[0] == 'W':
            toks.append('W%d:%s' % (op[3], _pk(op[1], op[2])))
        elif op[0] == 'A':
            toks.append('A:' + _pks(op[1]))
        else:
            toks.append(op[0])
    return ' '.join(toks)


def random_session(rng):
    rw = {}
    for c in rng.sample([2, 3, 4, 5], rng.randrange(0, 3)):
        rw[c] = [(900 + 10 * c + k, rng.choice([2, 3, 4, 5]), rng.random() < 0.5) for k in range(rng.randrange(1, 3))]
    ri = set(rng.sample([2, 3, 4, 5], rng.randrange(0, 2)))
    ops, lid, uid = [], 0, 0
    big = rng.random() < 0.15
    for _ in range(rng.randrange(1, 25)):
        x = rng.random()
        if x < 0.35:
            lid += 1
            ops.append(('R', lid, rng.sample([1, 2, 3, 4, 5], rng.randrange(0, 3)), rng.random() < 0.25,
                        rng.random() < 0.5, rng.random() < 0.5))
        elif x < 0.55:
            uid += 1
            ops.append(('W', uid, rng.choice([2, 3, 4, 5]), rng.random() < 0.4))
        elif x < 0.62:
            ops.append(('P',))
        elif x < 0.67:
            ops.append(('F',))
        elif x < 0.85:
            n = rng.randrange(0, 4) if not big else rng.randrange(40, 70)
            ps = []
            for _ in range(n):
                uid += 1
                ps.append((uid, rng.choice([2, 3, 4, 5])))
            ops.append(('A', ps))
            if big:
                for _ in range(rng.randrange(0, 330)):
                    uid += 1
                    ops.append(('W', uid, rng.choice([2, 3, 4, 5]), False))
        else:
            ops.append(('I',))
    return rw, ri, ops


# ------------------------------------------------------------------ the generated tables
def observe_targets():
    """[(early kw or None, outgoing kw or None, [indices in LISTS of the lists that grew])]"""
    C, Packet, _ = _mods()
    rows = []
    for e in (None, False, True):
        for o in (None, False, True):
            conn = C.Connection('localhost', 25565, username='u')
            before = {n: len(getattr(conn, n)) for n in LISTS}
            kw = {}
            if e is not None:
                kw['early'] = e
            if o is not None:
                kw['outgoing'] = o
            conn.register_packet_listener(lambda p: None, Packet, **kw)
            grew = [k for k, n in enumerate(LISTS) for _ in range(len(getattr(conn, n)) - before[n])]
            rows.append((e, o, grew))
    return rows


# two matching listeners per flag combination, interleaved, plus four that listen to an unrelated class
RUN_REGS = [(1, [2], False, False), (2, [2], True, True), (3, [1], True, False), (4, [2], False, True),
            (9, [4], True, False), (10, [4], False, True),
            (5, [1], True, True), (6, [2, 3], False, False), (7, [3], False, True), (8, [2], True, False),
            (11, [4], False, False), (12, [4], True, True)]
RUN_CLASS = 3


def observe_runs():
    """[(id of the one listener that raises IgnorePacket or 0, reaction raises, react log, write log)]
    logs as numbers: listener id, 0 = reactor.react / packet.write"""
    rows = []
    for ign_id in [0] + [r[0] for r in RUN_REGS]:
        for r_ign in (False, True):
            pr = Probe({}, {RUN_CLASS} if r_ign else set())
            for lid, types, early, outgoing in RUN_REGS:
                pr.register(lid, types, lid == ign_id, early, outgoing)
            pr.conn._react(pr.packet(1, RUN_CLASS))
            pr.conn._write_packet(pr.packet(2, RUN_CLASS))
            n = [e for e in pr.trace if e[0] == 'N'][0]
            o = [e for e in pr.trace if e[0] == 'O'][0]
            num = lambda log: [0 if x in ('R', 'W') else int(x[1:]) for x in log]
            rows.append((ign_id, r_ign, num(n[3]), num(o[4])))
    return rows


SESSIONS = [
    # queued and forced writes around registrations made in between; pop, flush
    ({}, set(), [('R', 1, [1], False, True, True), ('W', 1, 3, False), ('R', 2, [2], False, False, True),
                 ('W', 2, 4, True), ('W', 3, 5, False), ('P',), ('R', 3, [4], True, True, True), ('W', 4, 4, False),
                 ('F',), ('P',)]),
    # one `_run` iteration: queued packets first, then the arrived ones; the reaction to class 3 writes a
    # forced and a queued packet (the queued one leaves in the NEXT iteration); class 4 is ignored early
    ({3: [(90, 2, True), (91, 2, False)]}, set(),
     [('R', 1, [1], False, True, False), ('R', 2, [2], False, False, False), ('R', 3, [4], True, True, False),
      ('R', 4, [2], False, False, True), ('R', 5, [2], False, True, True),
      ('W', 1, 5, False), ('A', [(10, 3), (11, 4), (12, 5)]), ('I',), ('A', [(13, 2)]), ('I',)]),
    # the built-in reaction raises IgnorePacket for class 2 and below
    ({2: [(95, 4, False)]}, {2},
     [('R', 1, [1], False, True, False), ('R', 2, [1], False, False, False), ('A', [(20, 2), (21, 4)]), ('I',), ('F',)]),
]


def observe_sessions():
    return [(rw, ri, ops, run_session(rw, ri, ops)) for rw, ri, ops in SESSIONS]


# ------------------------------------------------------------------ Lean rendering
def lb(b):
    return 'true' if b else 'false'


def lopt(b):
    return 'none' if b is None else 'some ' + lb(b)


def lnats(xs):
    return '[%s]' % ', '.join(str(x) for x in xs)


def lpkt(u, c):
    return '⟨%d, %d⟩' % (u, c)


def lev(x):
    return '.reaction' if x == 'R' else ('.early %s' if x[0] == 'e' else '.ordinary %s') % x[1:]


def loutev(x):
    return '.written' if x == 'W' else ('.earlyOut %s' if x[0] == 'e' else '.ordOut %s') % x[1:]


def lop(op):
    if op[0] == 'R':
        _, lid, types, ign, early, outgoing = op
        return '.register ⟨⟨%d, %s, %s⟩, %s, %s⟩' % (lid, lnats(types), lb(ign), lb(early), lb(outgoing))
    if op[0] == 'W':
        return '.write %s %s' % (lpkt(op[1], op[2]), lb(op[3]))
    if op[0] == 'A':
        return '.arrive [%s]' % ', '.join(lpkt(u, c) for u, c in op[1])
    return {'P': '.pop', 'F': '.flush', 'I': '.iter'}[op[0]]


def ltr(e, regs):
    if e[0] == 'G':
        return '.reg %s' % regs[e[1]]
    if e[0] == 'I':
        return '.issued %s %s' % (lpkt(e[2], e[3]), lb(e[1]))
    if e[0] == 'O':
        return '.out %s %s [%s]' % ('.popped' if e[1] == 'p' else '.forced', lpkt(e[2], e[3]), ', '.join(loutev(x) for x in e[4]))
    return '.inc %s [%s] %s' % (lpkt(e[1], e[2]), ', '.join(lev(x) for x in e[3]), lb(e[4]))


def generate():
    classes = probe_classes()
    edges = hier_edges(classes)
    L = ['import PyCraft.Model.C13Roles',
         '/-!',
         'GENERATED by harness/gen/c13roles.py from the LIVE pyCraft code -- do not edit.',
         'What the real `Connection` did (single-threaded probe, dummy socket, stub reactor, probe packet',
         'classes): which list `register_packet_listener` appends to for each way of passing the flags; the',
         'order of callbacks / reaction / write in one `_react` and one `_write_packet` after a fixed',
         'interleaved registration sequence, for each choice of the call that raises `IgnorePacket`; and whole',
         'small sessions with every `write_packet`, `_write_packet`, `_react` call recorded.',
         '-/',
         'namespace PyCraft.Gen.C13Roles',
         'open PyCraft PyCraft.Roles',
         '',
         '/-- `(child, parent)` edges of the probe classes (1 = the real `Packet`), from `__bases__`. -/',
         'def liveHier : Hier := [%s]' % ', '.join('(%d, %d)' % e for e in edges),
         '',
         '/-- `(early=, outgoing=, lists that grew by one element)`; `none` = keyword omitted; lists by number:',
         '%s. -/' % ', '.join('%d = `%s`' % (k, n) for k, n in enumerate(LISTS)),
         'def liveTargets : List (Option Bool × Option Bool × List Nat) := [']
    L.append(',\n'.join('  (%s, %s, %s)' % (lopt(e), lopt(o), lnats(g)) for e, o, g in observe_targets()))
    L += ['  ]', '',
          '/-- The registration sequence of `liveRuns`: `(id, types, early, outgoing)`. -/',
          'def liveRunRegs : List (Nat × List Nat × Bool × Bool) := [']
    L.append(',\n'.join('  (%d, %s, %s, %s)' % (i, lnats(t), lb(e), lb(o)) for i, t, e, o in RUN_REGS))
    L += ['  ]', '', 'def liveRunClass : Nat := %d' % RUN_CLASS, '',
          '/-- `(id of the listener whose callback raises IgnorePacket, 0 = none; the reaction raises;',
          'order of calls inside `_react`; order of calls inside `_write_packet`)`, a number = the callback of',
          'that listener was entered, `0` = `reactor.react` resp. `packet.write` was entered. -/',
          'def liveRuns : List (Nat × Bool × List Nat × List Nat) := [']
    L.append(',\n'.join('  (%d, %s, %s, %s)' % (g, lb(r), lnats(a), lnats(b)) for g, r, a, b in observe_runs()))
    L += ['  ]', '']
    names = []
    def llist(xs):
        return '[%s]' % ', '.join('⟨%d, %s, %s⟩' % (i, lnats(t), lb(g)) for i, t, g in xs)
    for k, (rw, ri, ops, (trace, queue, inbox, lists)) in enumerate(observe_sessions()):
        regs = {op[1]: '⟨⟨%d, %s, %s⟩, %s, %s⟩' % (op[1], lnats(op[2]), lb(op[3]), lb(op[4]), lb(op[5])) for op in ops if op[0] == 'R'}
        L += ['/-- Session %d: reactor tables, operations, and what the real code did. -/' % k,
              'def liveSession%d : (List (Nat × List (Pkt × Bool)) × List Nat) × List Op × Conn := (' % k,
              '  ([%s], %s),' % (', '.join('(%d, [%s])' % (c, ', '.join('(%s, %s)' % (lpkt(u, kk), lb(f)) for u, kk, f in ws))
                                            for c, ws in sorted(rw.items())), lnats(sorted(ri))),
              '  [%s],' % ',\n   '.join(lop(op) for op in ops),
              '  { cfg := { packetListeners := %s, earlyPacketListeners := %s,' % (llist(lists[LISTS[0]]), llist(lists[LISTS[1]])),
              '             outgoingPacketListeners := %s, earlyOutgoingPacketListeners := %s },' % (llist(lists[LISTS[2]]), llist(lists[LISTS[3]])),
              '    queue := [%s],' % ', '.join(lpkt(u, c) for u, c in queue),
              '    inbox := [%s],' % ', '.join(lpkt(u, c) for u, c in inbox),
              '    trace := [%s] })' % ',\n      '.join(ltr(e, regs) for e in trace), '']
        names.append('liveSession%d' % k)
    L += ['def liveSessions : List ((List (Nat × List (Pkt × Bool)) × List Nat) × List Op × Conn) :=',
          '  [%s]' % ', '.join(names), '', 'end PyCraft.Gen.C13Roles', '']
    return [('PyCraft/Generated/C13Roles.lean', '\n'.join(L))]


def selfcheck(n, seed=1):
    """random sessions on the live code vs the Lean model (needs the model compiled: uses
    `lake env lean --run` on a throw-away main that calls PyCraft.Drive.roles)"""
    import random
    import subprocess
    import tempfile
    rng = random.Random(seed)
    edges = hier_edges(probe_classes())
    reqs, want = [], []
    for _ in range(n):
        rw, ri, ops = random_session(rng)
        reqs.append(request(edges, rw, ri, ops))
        want.append(render(*run_session(rw, ri, ops)))
    main = ('import PyCraft.Drive.C13Roles\n'
            'partial def loop (h : IO.FS.Stream) : IO Unit := do\n'
            '  let line ← h.getLine\n'
            '  if line.isEmpty then return ()\n'
            '  let toks := (line.trimAscii.toString.splitOn " ").filter (· ≠ "")\n'
            '  IO.println ((PyCraft.Drive.roles toks).getD "bad-op")\n'
            '  loop h\n'
            'def main : IO Unit := do loop (← IO.getStdin)\n')
    with tempfile.NamedTemporaryFile('w', suffix='.lean', delete=False) as f:
        f.write(main)
    try:
        out = subprocess.run(['lake', 'env', 'lean', '--run', f.name], cwd=os.path.join(os.path.dirname(HARNESS), 'lean'),
                             input='\n'.join(reqs) + '\n', capture_output=True, text=True)
    finally:
        os.unlink(f.name)
    got = out.stdout.splitlines()
    bad = [(r, w, g) for r, w, g in zip(reqs, want, got + [''] * len(reqs)) if w != g]
    print('selfcheck: %d sessions, %d differ%s' % (n, len(bad), '' if out.returncode == 0 else ' (lean: %s)' % out.stderr[:300]))
    for r, w, g in bad[:5]:
        print(' request:', r, '\n  python:', w, '\n  lean:  ', g)
    return not bad and len(got) == len(reqs)


if __name__ == '__main__':
    if len(sys.argv) > 1 and sys.argv[1] == '--selfcheck':
        sys.exit(0 if selfcheck(int(sys.argv[2]) if len(sys.argv) > 2 else 200) else 1)
    root = os.path.join(os.path.dirname(HARNESS), 'lean')
    for rel, text in generate():
        path = os.path.join(root, rel)
        old = open(path).read() if os.path.exists(path) else None
        if old != text:
            os.makedirs(os.path.dirname(path), exist_ok=True)
            with open(path, 'w') as f:
                f.write(text)
        print('wrote' if old != text else 'unchanged', path)
