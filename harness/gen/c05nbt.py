#!/venv/bin/python
"""Generator for lean/PyCraft/Generated/C05Nbt.lean (property C05, audit gap 13: NBT fields).

Evaluates the LIVE `minecraft.networking.types.NBT` (basic.py:349-359, on top of the installed pynbt)
and the live JoinGamePacket / RespawnPacket, and tabulates what they did:

 * `nbtSendVectors`   : (root name of the value handed to `NBT.send`, its children, the bytes sent).
 * `nbtReadVectors`   : (input bytes, what `NBT.read` returned on a PacketBuffer holding them:
                        `.ok ((root name, children), unread rest)` or `.error <class>`): every send
                        vector followed by two stray bytes, every strict prefix of two of them, and
                        a list of irregular inputs (wrong first byte, negative / unknown tag bytes,
                        duplicate keys, TAG_End lists, negative lengths, short byte arrays, …).
 * `nbtPacketVectors` : for every distinct field layout of an NBT-bearing packet class (first and
                        last supported version using it): (table, class, version, field values, the
                        bytes `write_fields` produced); the values are also read back here with the
                        live `read` and the row is only emitted with `readBackOk = true/false`.

Tags are printed as terms of `PyCraft.Nbt.Tag` (Model/C05Nbt.lean) through `tree()`, which refuses
objects outside the normal form the model speaks about (child name = key, list item name = None, list
items of the list's class).  Floats are printed as their IEEE bit patterns.  Strings use characters in
U+0001..U+FFFF only (where MUTF-8 = UTF-8).  Nothing is copied from the Lean model.

`generate()` -> [(path relative to /verif/lean, Lean source text)].
"""
import os
import struct
import sys

sys.dont_write_bytecode = True
REL = 'PyCraft/Generated/C05Nbt.lean'


def _repo():
    repo = os.environ.get('PYCRAFT_REPO', '/repo')
    if repo not in sys.path:
        sys.path.insert(0, repo)


# ---------------------------------------------------------------------------------- printing

def lean_str(s):
    out = []
    for ch in s:
        o = ord(ch)
        if not (1 <= o <= 0xFFFF) or 0xD800 <= o <= 0xDFFF:
            raise ValueError('string outside the tabulated range: %r' % (s,))
        if ch == '"' or ch == '\\':
            out.append('\\' + ch)
        elif o < 0x20 or o == 0x7f:
            out.append('\\x%02x' % o)
        else:
            out.append(ch)
    return '"' + ''.join(out) + '"'


def lean_int(i):
    return '(%d)' % i if i < 0 else '%d' % i


def lean_bytes(b):
    return '[' + ', '.join('%d' % x for x in bytes(b)) + ']'


def tree(tag, pynbt, expect_name):
    """a pynbt object as a `Tag` term; `expect_name` is the name normal form prescribes"""
    if tag.name != expect_name:
        raise ValueError('not in normal form: name %r, expected %r' % (tag.name, expect_name))
    T = pynbt
    c = type(tag)
    if c is T.TAG_End:
        return '.end_ ' + lean_int(tag.value)
    if c is T.TAG_Byte:
        return '.byte ' + lean_int(tag.value)
    if c is T.TAG_Short:
        return '.short ' + lean_int(tag.value)
    if c is T.TAG_Int:
        return '.int ' + lean_int(tag.value)
    if c is T.TAG_Long:
        return '.long ' + lean_int(tag.value)
    if c is T.TAG_Float:
        return '.float %d' % struct.unpack('>I', struct.pack('>f', tag.value))[0]
    if c is T.TAG_Double:
        return '.double %d' % struct.unpack('>Q', struct.pack('>d', tag.value))[0]
    if c is T.TAG_Byte_Array:
        return '.byteArray ' + lean_bytes(tag.value)
    if c is T.TAG_String:
        return '.string ' + lean_str(tag.value)
    if c is T.TAG_List:
        ty = T._tags.index(tag.type_)
        for it in tag:
            if type(it) is not tag.type_:
                raise ValueError('not in normal form: list item of another class')
        return '.list %d [%s]' % (ty, ', '.join(tree(it, pynbt, None) for it in tag))
    if c is T.TAG_Compound or c is T.NBTFile:
        return '.compound ' + entries(tag, pynbt)
    if c is T.TAG_Int_Array:
        return '.intArray [%s]' % ', '.join(lean_int(x) for x in tag.value)
    if c is T.TAG_Long_Array:
        return '.longArray [%s]' % ', '.join(lean_int(x) for x in tag.value)
    raise ValueError('unknown tag class %r' % (c,))


def entries(d, pynbt):
    return '[' + ', '.join('(%s, %s)' % (lean_str(k), tree(v, pynbt, k)) for k, v in d.items()) + ']'


ERR = {'error': 'struct', 'OSError': 'other', 'IndexError': 'other', 'UnicodeDecodeError': 'decode',
       'TypeError': 'type', 'ValueError': 'value', 'RecursionError': 'other', 'EOFError': 'eof'}


def err_of(e):
    return ERR.get(type(e).__name__, 'other')


# ---------------------------------------------------------------------------------- samples

def samples(T):
    """(root name or None for a plain dict, children) handed to NBT.send; fresh objects each call"""
    f32 = lambda bits: struct.unpack('>f', struct.pack('>I', bits))[0]
    element = lambda i: T.TAG_Compound({
        'name': T.TAG_String('minecraft:d%d' % i),
        'id': T.TAG_Int(i),
        'element': T.TAG_Compound({
            'piglin_safe': T.TAG_Byte(i % 2),
            'ambient_light': T.TAG_Float(f32(0x3dcccccd) if i else 0.0),
            'fixed_time': T.TAG_Long(6000 * i),
            'logical_height': T.TAG_Int(256),
            'coordinate_scale': T.TAG_Double(8.0 if i else 1.0),
            'infiniburn': T.TAG_String('minecraft:infiniburn_overworld'),
        }),
    })
    return [
        (None, {}),
        (None, {'a': T.TAG_Int(1)}),
        ('root', {'a': T.TAG_Int(1)}),                      # a named root: NBT.send drops the name
        (None, {'b0': T.TAG_Byte(-128), 'b1': T.TAG_Byte(127), 's0': T.TAG_Short(-32768),
                's1': T.TAG_Short(32767), 'i0': T.TAG_Int(-2 ** 31), 'i1': T.TAG_Int(2 ** 31 - 1),
                'l0': T.TAG_Long(-2 ** 63), 'l1': T.TAG_Long(2 ** 63 - 1), 'f': T.TAG_Float(1.5),
                'g': T.TAG_Float(f32(0xff800000)), 'd': T.TAG_Double(-0.25)}),
        (None, {'ba': T.TAG_Byte_Array(bytearray(b'\x00\xff\x7f\x80')), 'be': T.TAG_Byte_Array(bytearray()),
                'st': T.TAG_String('minecraft:overworld'), 'su': T.TAG_String(u'hé€'),
                'se': T.TAG_String(''), u'kéy': T.TAG_Byte(1)}),
        (None, {'lb': T.TAG_List(T.TAG_Byte, [T.TAG_Byte(1), T.TAG_Byte(-2)]),
                'le': T.TAG_List(T.TAG_End, []),
                'li': T.TAG_List(T.TAG_Int, []),
                'ls': T.TAG_List(T.TAG_String, [T.TAG_String('x'), T.TAG_String('')]),
                'll': T.TAG_List(T.TAG_List, [T.TAG_List(T.TAG_Int, [T.TAG_Int(7)]),
                                              T.TAG_List(T.TAG_Int, [])]),
                'lc': T.TAG_List(T.TAG_Compound, [T.TAG_Compound({'p': T.TAG_Byte(0)}),
                                                  T.TAG_Compound({})]),
                'lba': T.TAG_List(T.TAG_Byte_Array, [T.TAG_Byte_Array(bytearray(b'\x01\x02'))])}),
        (None, {'ia': T.TAG_Int_Array([-1, 0, 2 ** 31 - 1]), 'ie': T.TAG_Int_Array([]),
                'la': T.TAG_Long_Array([-2 ** 63, 5]), 'lz': T.TAG_Long_Array([])}),
        (None, {'minecraft:dimension_type': T.TAG_Compound({
            'type': T.TAG_String('minecraft:dimension_type'),
            'value': T.TAG_List(T.TAG_Compound, [element(0), element(1)])})}),
        (None, {'ba': T.TAG_Byte_Array(bytearray(b'\x01\x02')), 's': T.TAG_String(u'hé'),
                'l': T.TAG_List(T.TAG_Byte_Array, [T.TAG_Byte_Array(bytearray(b'\x03'))])}),
    ]


IRREGULAR = [
    '', '00', '0b0000', '0a', '0a00', '0a0000', '0a0001', '0a000161', '0a00016100', '0a0000ff',
    '0a00000d000000',                                   # tag 13: IndexError
    '0a0000f30000000000000000',                         # tag -13 = TAG_End read as a named child
    '0a0000f500000000000100',                           # tag -11 = TAG_Short
    '0a0000800000',                                     # tag -128: IndexError
    '0a00000300016100000001010001610500',               # duplicate key: the later child wins
    '0a000003000161000000010300016200000002010001610500',   # … and keeps the first position
    '0a00000900000000000100',                           # list of TAG_End, length 1, truncated
    '0a000009000000000000020102030400',                 # list of two TAG_End items
    '0a000009000000ffffffff00',                         # negative list length: empty list
    '0a0000090000f4000000010000000000',                 # list item type -12 = TAG_Byte
    '0a00000900000d0000000000',                         # list item type 13, length 0: IndexError
    '0a0000070000ffffffff0102',                         # negative byte-array length: reads everything
    '0a00000700000000000501020300',                     # short byte array: eaten, then EOF
    '0a00000b0000ffffffff00',                           # negative int-array length
    '0a00000b00000000000200000001',                     # short int array
    '0a00000c0000000000010000000000000009 00'.replace(' ', ''),
    '0a0000080000fffe6162',                             # negative string length: reads everything
    '0a000008000000056162',                             # short string: eaten, then EOF (no NUL byte
                                                        # inside strings: there MUTF-8 differs from UTF-8)
    '0a0000080000000161 00 ffff'.replace(' ', ''),      # regular, two stray bytes left
    '0a0000' + '0a0000' * 3 + '00' * 4,                 # nested compounds named ''
]


def send_live(NBT, PacketBuffer, value):
    buf = PacketBuffer()
    NBT.send(value, buf)
    return buf.get_writable()


def read_live(NBT, PacketBuffer, T, data):
    pb = PacketBuffer()
    pb.send(data)
    pb.reset_cursor()
    try:
        r = NBT.read(pb)
    except Exception as e:                               # noqa: the class is the observation
        return '.error .%s' % err_of(e)
    rest = pb.read()
    if type(r) is not T.NBTFile:
        raise ValueError('NBT.read returned %r' % (type(r),))
    return '.ok ((%s, %s), %s)' % (lean_str(r.name), entries(r, T), lean_bytes(rest))


# ---------------------------------------------------------------------------------- packets

def packet_rows(T):
    import minecraft
    from minecraft.networking.connection import ConnectionContext
    from minecraft.networking.packets import PacketBuffer
    from minecraft.networking.packets.clientbound.play import JoinGamePacket, RespawnPacket
    from minecraft.networking.types import basic as B

    def nbt_value(i):
        return {'n': T.TAG_Int(i), 'effects': T.TAG_String('minecraft:overworld')}

    def field(t, i):
        """(python value, Lean `Value` term) for a field of type `t`"""
        if t is B.NBT:
            v = nbt_value(i)
            return v, 'rootValue "" ' + entries(T.TAG_Compound(nbt_value(i)), T)
        if t is B.Integer:
            return -5 - i, '.int (%d)' % (-5 - i)
        if t is B.Boolean:
            return bool(i % 2), '.bool %s' % ('true' if i % 2 else 'false')
        if t is B.UnsignedByte:
            return 200 + i, '.int %d' % (200 + i)
        if t is B.Byte:
            return -1, '.int (-1)'
        if t is B.Long:
            return -2 ** 62 + i, '.int (%d)' % (-2 ** 62 + i)
        if t is B.VarInt:
            return 300 + i, '.int %d' % (300 + i)
        if t is B.String:
            s = 'minecraft:w%d' % i
            return s, '.str ' + lean_str(s)
        if isinstance(t, B.PrefixedArray) and t.length_type is B.VarInt and t.element_type is B.String:
            xs = ['minecraft:a', 'b%d' % i]
            return xs, '.list [%s]' % ', '.join('.str ' + lean_str(x) for x in xs)
        raise ValueError('field type not handled by this generator: %r' % (t,))

    sup = sorted(minecraft.SUPPORTED_PROTOCOL_VERSIONS,
                 key=lambda v: minecraft.KNOWN_PROTOCOL_VERSIONS.index(v))
    rows = []
    for cls in (JoinGamePacket, RespawnPacket):
        groups = []                                       # [(layout signature, [versions])]
        for v in sup:
            cx = ConnectionContext(protocol_version=v)
            d = [(n, t) for f in cls.get_definition(cx) for n, t in f.items()]
            if not any(t is B.NBT for _, t in d):
                continue
            sig = tuple((n, repr(t) if not isinstance(t, B.PrefixedArray) else 'arr') for n, t in d)
            if groups and groups[-1][0] == sig:
                groups[-1][1].append(v)
            else:
                groups.append((sig, [v]))
        for _, vs in groups:
            for v in sorted(set([vs[0], vs[-1]]), key=vs.index):
                cx = ConnectionContext(protocol_version=v)
                d = [(n, t) for f in cls.get_definition(cx) for n, t in f.items()]
                p = cls(cx)
                terms = []
                for i, (n, t) in enumerate(d):
                    pyv, term = field(t, i)
                    setattr(p, n, pyv)
                    terms.append(term)
                ok, data = True, b''
                try:
                    buf = PacketBuffer()
                    p.write_fields(buf)
                    data = buf.get_writable()
                    q = cls(cx)
                    rb = PacketBuffer()
                    rb.send(data)
                    rb.reset_cursor()
                    q.read(rb)
                    ok = rb.read() == b''
                    for i, (n, t) in enumerate(d):
                        got = getattr(q, n)
                        exp, term = field(t, i)
                        if t is B.NBT:
                            ok = ok and type(got) is T.NBTFile and got.name == '' and \
                                entries(got, T) == entries(T.TAG_Compound(exp), T)
                        else:
                            ok = ok and got == exp
                except Exception:                        # noqa: reported through the `false` flag
                    ok = False
                rows.append('("cbPlay", %s, %d, [%s],\n    %s, %s)' % (
                    lean_str(cls.__name__), v, ', '.join(terms), lean_bytes(data),
                    'true' if ok else 'false'))
    return rows


# ---------------------------------------------------------------------------------- output

def _table(name, row, ty, rows):
    """one definition per row (keeps elaboration of the long literals cheap), then the table"""
    out = []
    for i, r in enumerate(rows):
        out += ['def %s%d : %s :=\n  %s' % (row, i, ty, r), '']
    out += ['def %s : List (%s) := [' % (name, ty),
            '  ' + ', '.join('%s%d' % (row, i) for i in range(len(rows))), ']', '']
    return out


def generate():
    _repo()
    import pynbt as T
    from minecraft.networking.types import NBT
    from minecraft.networking.packets import PacketBuffer

    send_rows, read_rows, sent = [], [], []
    for (name, kids), (_, kids2) in zip(samples(T), samples(T)):
        value = kids if name is None else T.NBTFile(name=name, value=kids)
        try:
            data = send_live(NBT, PacketBuffer, value)
        except Exception:                                # noqa: an empty row fails the Lean theorem
            data = b''
        sent.append(data)
        send_rows.append('(%s, %s,\n    %s)' % (lean_str(name or ''), entries(T.TAG_Compound(kids2), T),
                                              lean_bytes(data)))
    inputs = [d + b'\x07\x07' for d in sent]
    for d in (sent[1], sent[8]):
        inputs += [d[:k] for k in range(len(d))]
    inputs += [bytes.fromhex(h) for h in IRREGULAR]
    seen = set()
    for d in inputs:
        if d in seen:
            continue
        seen.add(d)
        read_rows.append('(%s,\n    %s)' % (lean_bytes(d), read_live(NBT, PacketBuffer, T, d)))

    out = [
        '/- GENERATED by harness/gen/c05nbt.py from the live code of /repo (minecraft.networking.types.NBT,',
        '   JoinGamePacket, RespawnPacket) on top of the installed pynbt. Do not edit.',
        '   nbtSendVectors:   (root name of the value given to NBT.send, its children, the bytes sent).',
        '   nbtReadVectors:   (bytes, what NBT.read returned: ((root name, children), unread rest) or the',
        '                     error class).',
        '   nbtPacketVectors: (table, class, protocol, field values, bytes of write_fields, whether the live',
        '                     read gave the values back and consumed the bytes exactly). -/',
        'import PyCraft.Model.C05Nbt',
        'namespace PyCraft.Gen',
        'open PyCraft PyCraft.Nbt',
        '',
    ]
    out += _table('nbtSendVectors', 'nbtSendRow', 'String × Entries × Bytes', send_rows)
    out += _table('nbtReadVectors', 'nbtReadRow', 'Bytes × Except Err ((String × Entries) × Bytes)',
                  read_rows)
    out += _table('nbtPacketVectors', 'nbtPacketRow', 'String × String × Nat × List Value × Bytes × Bool',
                  packet_rows(T))
    out += [
        'end PyCraft.Gen',
        '',
    ]
    return [(REL, '\n'.join(out))]


if __name__ == '__main__':
    root = os.path.join(os.path.dirname(os.path.dirname(os.path.dirname(os.path.abspath(__file__)))),
                        'lean')
    for rel, text in generate():
        path = os.path.join(root, rel)
        old = open(path).read() if os.path.exists(path) else None
        if old != text:
            os.makedirs(os.path.dirname(path), exist_ok=True)
            with open(path, 'w') as f:
                f.write(text)
            print('wrote', path)
        else:
            print('unchanged', path)
