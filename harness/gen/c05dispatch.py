"""Generator for lean/PyCraft/Generated/C05Dispatch.lean (audit gap 14, property C05).

Everything below is obtained by RUNNING the live code of /repo (no threshold, id or layout is written
down here):

* `codecs` / `<table>Idx` — for each of the 8 state/direction tables and every known protocol version:
  the classes returned by the live `get_packets(context)`, in the row order of `Generated/Ids.lean`
  (sorted by (class name, id)), each with the index of its codec in `codecs`: index 0 = the class
  overrides `read` / `write_fields` (hand-written codec); otherwise the field list returned by the live
  `get_definition(context)`, translated STRUCTURALLY (type object -> `WType`).  The three custom types
  whose wire format depends on the context (`Position`, `MultiBlockChangePacket.Record`,
  `SoundEffectPacket.Pitch`) are emitted with placeholder flags (`false`); the Lean side fills the
  flags in from `customProbe`.
* `customProbe` — for every known version, the format actually used by the live `send_with_context`
  AND the one accepted by the live `read_with_context` of those three types, determined from the bytes
  written for probe values and from what is read back from reference byte strings
  (1 / 0 = the two formats, 2 = neither).
* `<class>Bytes` — for every known version the bytes the live `write_fields` of each hand-written class
  produces for a fixed sample packet, and the bytes it produces for what the live `read` made of them.
* `<class><Send|Read>` spy tables — for every known version the set of version comparisons
  (`protocol_earlier`, `…_eq`, `protocol_later`, `…_eq`, `protocol_in_range`, with their arguments and
  results) that the live `write_fields` resp. `read` of each hand-written class performs on a sample
  packet exercising every branch, recorded by a `ConnectionContext` subclass that logs and delegates.
"""
import io
import os
import struct
import sys

sys.dont_write_bytecode = True

REL = os.path.join('PyCraft', 'Generated', 'C05Dispatch.lean')

TABLES = [
    ('cbHandshake', 'clientbound', 'handshake'), ('cbStatus', 'clientbound', 'status'),
    ('cbLogin', 'clientbound', 'login'), ('cbPlay', 'clientbound', 'play'),
    ('sbHandshake', 'serverbound', 'handshake'), ('sbStatus', 'serverbound', 'status'),
    ('sbLogin', 'serverbound', 'login'), ('sbPlay', 'serverbound', 'play'),
]

# comparison kinds of the spy log (Lean side: `SpyKind` codes)
LT, LE, GT, GE, RANGE = 0, 1, 2, 3, 4


def lean_str(s):
    out = ['"']
    for ch in s:
        if ch in '"\\':
            out.append('\\' + ch)
        elif 32 <= ord(ch) < 127:
            out.append(ch)
        else:
            out.append('\\u{%x}' % ord(ch))
    out.append('"')
    return ''.join(out)


# ------------------------------------------------------------------ structural translation of types

def wtype_schema(t):
    """pyCraft wire type object -> Lean `WType` term; no context involved"""
    from minecraft.networking.types import basic as B
    from minecraft.networking.packets.clientbound.play import (
        MultiBlockChangePacket, ExplosionPacket, SoundEffectPacket)
    simple = {B.Boolean: '.bool', B.UnsignedByte: '.int .u8', B.Byte: '.int .i8',
              B.Short: '.int .i16', B.UnsignedShort: '.int .u16', B.Integer: '.int .i32',
              B.Long: '.int .i64', B.UnsignedLong: '.int .u64', B.Float: '.int .f32',
              B.Double: '.int .f64', B.VarInt: '.varint', B.VarLong: '.varlong',
              B.String: '.string', B.UUID: '.uuid', B.Angle: '.angle',
              B.ShortPrefixedByteArray: '.bytesShort', B.VarIntPrefixedByteArray: '.bytesVarint',
              B.TrailingByteArray: '.trailing', B.NBT: '.custom .nbt',
              MultiBlockChangePacket.ChunkSectionPos: '.custom .secpos',
              ExplosionPacket.Record: '.custom .explRecord',
              SoundEffectPacket.EffectPosition: '.custom .effectPos',
              # context-dependent formats: placeholder flags, see customProbe
              B.Position: '.custom (.position false)',
              MultiBlockChangePacket.Record: '.custom (.record false)',
              SoundEffectPacket.Pitch: '.custom (.pitch false false)'}
    base = {B.Byte: '.i8', B.Short: '.i16', B.Integer: '.i32', B.Long: '.i64', B.UnsignedByte: '.u8'}
    lens = {B.VarInt: '.varint', B.Integer: '.i32', B.Short: '.i16', B.UnsignedByte: '.u8'}
    if isinstance(t, type) and t in simple:
        return simple[t]
    if isinstance(t, B.FixedPoint):
        bits = t.denominator.bit_length() - 1
        if 2 ** bits != t.denominator:
            raise KeyError('FixedPoint denominator %r' % (t.denominator,))
        return '.fixed %s %d' % (base[t.integer_type], bits)
    if isinstance(t, B.PrefixedArray):
        return '.array %s (%s)' % (lens[t.length_type], wtype_schema(t.element_type))
    raise KeyError('unknown wire type %r' % (t,))


def registry():
    """-> (codecs, {table: [(pv, [(class name, codec index), row order of Generated/Ids.lean])]})"""
    import minecraft
    from minecraft.networking.connection import ConnectionContext
    from minecraft.networking import packets
    from minecraft.networking.packets import Packet
    codecs = [None]           # index 0: hand-written read / write_fields
    index = {None: 0}
    tabs = {}
    for name, direction, state in TABLES:
        gp = getattr(getattr(packets, direction), state).get_packets
        rows = []
        for pv in minecraft.KNOWN_PROTOCOL_VERSIONS:
            ctx = ConnectionContext(protocol_version=pv)
            ents = []
            # a set: iterate in a fixed order so that the numbering of `codecs` is reproducible
            for cls in sorted(gp(ctx), key=lambda c: (c.__name__, c.__module__)):
                try:
                    i = cls.get_id(ctx)
                except Exception:
                    i = None
                if isinstance(i, bool) or not isinstance(i, int):
                    i = None
                custom = cls.read is not Packet.read or cls.write_fields is not Packet.write_fields
                if custom:
                    lay = None
                else:
                    d = cls.get_definition(ctx)
                    lay = tuple((n, wtype_schema(t)) for f in d for n, t in f.items())
                if lay not in index:
                    index[lay] = len(codecs)
                    codecs.append(lay)
                ents.append((cls.__name__, -1 if i is None else i, index[lay]))
            ents.sort(key=lambda e: (e[0], e[1]))
            rows.append((pv, [(e[0], e[2]) for e in ents]))
        tabs[name] = rows
    return codecs, tabs


# ------------------------------------------------------------------ behavioural probe of custom types

def _buf(data=b''):
    from minecraft.networking.packets import PacketBuffer
    pb = PacketBuffer()
    if data:
        pb.send(data)
        pb.reset_cursor()
    return pb


def _written(f):
    pb = _buf()
    try:
        f(pb)
    except Exception:
        return None
    return bytes(pb.get_writable())


def _varnum(n):
    out = b''
    while True:
        b = n & 0x7F
        n >>= 7
        out += bytes([b | (0x80 if n else 0)])
        if not n:
            return out


POS_PROBES = [(1, 2, 3), (-1, -2, -3), (2 ** 25 - 1, -2 ** 11, -2 ** 25), (-2 ** 25, 2 ** 11 - 1, 5)]
REC_PROBES = [(3, 5, 9, 300), (15, 0, 1, 0), (0, 15, 15, 4095)]


def pos_ref(p, newer):
    x, y, z = p
    v = ((x & 0x3FFFFFF) << 38 | (z & 0x3FFFFFF) << 12 | (y & 0xFFF)) if newer else \
        ((x & 0x3FFFFFF) << 38 | (y & 0xFFF) << 26 | (z & 0x3FFFFFF))
    return struct.pack('>Q', v)


def rec_ref(r, newer):
    x, y, z, b = r
    if newer:
        return _varnum(b << 12 | (x & 0xF) << 8 | (z & 0xF) << 4 | (y & 0xF))
    return bytes([x << 4 | z & 0xF, y]) + _varnum(b)


def classify(results):
    """results: [(matches format 1, matches format 0)] -> 1 / 0 / 2"""
    if all(a and not b for a, b in results):
        return 1
    if all(b and not a for a, b in results):
        return 0
    return 2


def probe_custom(ctx):
    """-> [posSend, posRead, recSend, recRead, pitchF32Send, pitchF32Read, pitchScaledSend, pitchScaledRead]"""
    from minecraft.networking.types import Position
    from minecraft.networking.packets.clientbound.play import MultiBlockChangePacket, SoundEffectPacket
    Rec, Pitch = MultiBlockChangePacket.Record, SoundEffectPacket.Pitch
    out = []
    # Position
    res = []
    for p in POS_PROBES:
        w = _written(lambda pb: Position.send_with_context(p, pb, ctx))
        res.append((w == pos_ref(p, True), w == pos_ref(p, False)))
    out.append(classify(res))
    res = []
    for p in POS_PROBES:
        r = []
        for newer in (True, False):
            try:
                pb = _buf(pos_ref(p, newer) + b'\x55')
                q = Position.read_with_context(pb, ctx)
                r.append(tuple(q) == p and pb.read() == b'\x55')
            except Exception:
                r.append(False)
        res.append(tuple(r))
    out.append(classify(res))
    # Record
    res = []
    for r_ in REC_PROBES:
        rec = Rec(x=r_[0], y=r_[1], z=r_[2], block_state_id=r_[3])
        w = _written(lambda pb: Rec.send_with_context(rec, pb, ctx))
        res.append((w == rec_ref(r_, True), w == rec_ref(r_, False)))
    out.append(classify(res))
    res = []
    for r_ in REC_PROBES:
        r = []
        for newer in (True, False):
            try:
                pb = _buf(rec_ref(r_, newer) + b'\x55')
                q = Rec.read_with_context(pb, ctx)
                r.append((q.x, q.y, q.z, q.block_state_id) == r_ and pb.read() == b'\x55')
            except Exception:
                r.append(False)
        res.append(tuple(r))
    out.append(classify(res))
    # Pitch: value 1.0 is written as Float(63.5) / Float(1.0) / Byte(63) / Byte(1)
    w = _written(lambda pb: Pitch.send_with_context(1.0, pb, ctx))
    table = {struct.pack('>f', 63.5): (1, 1), struct.pack('>f', 1.0): (1, 0), b'\x3f': (0, 1), b'\x01': (0, 0)}
    f32s, scs = table.get(w, (2, 2))
    try:
        pb = _buf(struct.pack('>f', 63.5))        # 42 7e 00 00
        v = Pitch.read_with_context(pb, ctx)
        rest = pb.read()
        if rest == b'':
            f32r, raw = 1, 63.5
        elif rest == b'\x7e\x00\x00':
            f32r, raw = 0, 0x42
        else:
            f32r, raw = 2, None
        scr = 2 if raw is None else 0 if v == raw else 1 if v == raw / 63.5 else 2
    except Exception:
        f32r, scr = 2, 2
    out += [f32s, f32r, scs, scr]
    return out


def custom_probe():
    import minecraft
    from minecraft.networking.connection import ConnectionContext
    return [(pv, probe_custom(ConnectionContext(protocol_version=pv)))
            for pv in minecraft.KNOWN_PROTOCOL_VERSIONS]


# ------------------------------------------------------------------ spy context

def make_spy(pv):
    from minecraft.networking.connection import ConnectionContext

    class SpyContext(ConnectionContext):
        def __init__(self, **kw):
            super(SpyContext, self).__init__(**kw)
            self.log = set()

        def _rec(self, kind, a, b, res):
            self.log.add((kind, a, b, bool(res)))
            return res

        def protocol_earlier(self, other_pv):
            return self._rec(LT, other_pv, 0, super(SpyContext, self).protocol_earlier(other_pv))

        def protocol_earlier_eq(self, other_pv):
            return self._rec(LE, other_pv, 0, super(SpyContext, self).protocol_earlier_eq(other_pv))

        def protocol_later(self, other_pv):
            return self._rec(GT, other_pv, 0, super(SpyContext, self).protocol_later(other_pv))

        def protocol_later_eq(self, other_pv):
            return self._rec(GE, other_pv, 0, super(SpyContext, self).protocol_later_eq(other_pv))

        def protocol_in_range(self, start_pv, end_pv):
            return self._rec(RANGE, start_pv, end_pv,
                             super(SpyContext, self).protocol_in_range(start_pv, end_pv))
    return SpyContext(protocol_version=pv)


def hand_samples():
    """class name -> (table, function building the sample packet for a context)"""
    from minecraft.networking.packets import clientbound, serverbound
    P = clientbound.play
    uuid = '00010203-0405-0607-0809-0a0b0c0d0e0f'

    def mk_map(ctx):
        p = P.MapPacket(ctx)
        p.map_id, p.scale, p.is_tracking_position, p.is_locked = 3, 1, True, False
        p.icons = [P.MapPacket.MapIcon(type=5, direction=12, location=(-1, 1), display_name='hi')]
        p.width, p.height, p.offset, p.pixels = 2, 1, (3, 4), b'\xaa\xbb'
        return p

    def mk_pli(ctx):
        p = P.PlayerListItemPacket(ctx)
        A = P.PlayerListItemPacket.AddPlayerAction
        p.action_type = A
        p.actions = [A(uuid=uuid, name='ab', properties=[
            P.PlayerListItemPacket.PlayerProperty(name='n', value='v', signature='s')],
            gamemode=1, ping=20, display_name='hi')]
        return p

    def mk_spawn(ctx):
        p = P.SpawnObjectPacket(ctx)
        p.entity_id, p.object_uuid, p.type_id = 1, uuid, 5
        p.x, p.y, p.z, p.pitch, p.yaw, p.data = 1, 2, 3, 90, 180, 1
        p.velocity_x, p.velocity_y, p.velocity_z = 1, 2, 3
        return p

    def mk_combat(ctx):
        p = P.CombatEventPacket(ctx)
        p.event = P.CombatEventPacket.EntityDeadEvent(player_id=1, entity_id=2, message='x')
        return p

    def mk_face(ctx):
        p = P.FacePlayerPacket(ctx)
        p.origin, p.x, p.y, p.z, p.entity_id, p.entity_origin = 0, 1.0, 2.0, 3.0, 7, 1
        return p

    def mk_plug(ctx):
        p = serverbound.login.PluginResponsePacket(ctx)
        p.message_id, p.successful, p.data = 1, True, b'ab'
        return p
    return [('map', P.MapPacket, mk_map), ('pli', P.PlayerListItemPacket, mk_pli),
            ('spawn', P.SpawnObjectPacket, mk_spawn), ('combat', P.CombatEventPacket, mk_combat),
            ('face', P.FacePlayerPacket, mk_face), ('plug', serverbound.login.PluginResponsePacket, mk_plug)]


def spy_tables():
    """-> [(lean name, class name, [variants], [(pv, variant index)])] for send and read of each class"""
    import minecraft
    from minecraft.networking.connection import ConnectionContext
    known = list(minecraft.KNOWN_PROTOCOL_VERSIONS)
    out = []
    for key, cls, mk in hand_samples():
        # bytes to feed the reader where this version's writer raises: those of the nearest version
        # (in publication order) whose writer succeeds
        plain = {}
        for pv in known:
            c = ConnectionContext(protocol_version=pv)
            plain[pv] = _written(lambda pb: mk(c).write_fields(pb))
        ok = [pv for pv in known if plain[pv] is not None]
        send_rows, read_rows, send_var, read_var = [], [], [], []
        for k, pv in enumerate(known):
            spy = make_spy(pv)
            try:
                mk(spy).write_fields(_buf())
            except Exception:
                pass
            slog = tuple(sorted(spy.log))
            data = plain[pv]
            if data is None:
                near = min(ok, key=lambda q: abs(known.index(q) - k)) if ok else None
                data = plain[near] if near is not None else b''
            spy = make_spy(pv)
            try:
                cls(spy).read(_buf(data))
            except Exception:
                pass
            rlog = tuple(sorted(spy.log))
            for log, var, rows in ((slog, send_var, send_rows), (rlog, read_var, read_rows)):
                if log not in var:
                    var.append(log)
                rows.append((pv, var.index(log)))
        out.append((key + 'Send', cls.__name__, send_var, send_rows))
        out.append((key + 'Read', cls.__name__, read_var, read_rows))
    return out


def bytes_tables():
    """-> [(lean name, class name, [variants (written, re-written)], [(pv, variant index)])]:
    the bytes the live write_fields produces for the sample packet under every known version (None: it
    raised), and the bytes the live write_fields produces for what the live read made of them (None:
    read raised, left bytes unread, or the second write raised)"""
    import minecraft
    from minecraft.networking.connection import ConnectionContext
    out = []
    for key, cls, mk in hand_samples():
        var, rows = [], []
        for pv in minecraft.KNOWN_PROTOCOL_VERSIONS:
            ctx = ConnectionContext(protocol_version=pv)
            w = _written(lambda pb: mk(ctx).write_fields(pb))
            rw = None
            if w is not None:
                try:
                    q = cls(ctx)
                    pb = _buf(w)
                    q.read(pb)
                    if pb.read() == b'':
                        rw = _written(lambda pb2: q.write_fields(pb2))
                except Exception:
                    rw = None
            v = (w, rw)
            if v not in var:
                var.append(v)
            rows.append((pv, var.index(v)))
        out.append((key + 'Bytes', cls.__name__, var, rows))
    return out


# ------------------------------------------------------------------ rendering

def render():
    codecs, tabs = registry()
    probe = custom_probe()
    spies = spy_tables()
    o = ['/- GENERATED by harness/gen/c05dispatch.py by running the live code of /repo (get_packets,',
         '   get_id order of Generated/Ids.lean, get_definition, the custom types\' send/read_with_context,',
         '   and write_fields/read of the hand-written classes under a recording context). Do not edit. -/',
         'import PyCraft.Model.Wire', 'namespace PyCraft.Gen.C05D', 'open PyCraft', '',
         '/-- the distinct codecs: `none` (index 0) = the class overrides read / write_fields; `some L` = the',
         'field list of the live get_definition, custom types that depend on the context with placeholder flags -/',
         'def codecs : List (Option (List (String × WType))) := [']
    rows = []
    for c in codecs:
        if c is None:
            rows.append('  none')
        else:
            rows.append('  some [%s]' % ', '.join('(%s, %s)' % (lean_str(n), t) for n, t in c))
    o.append(',\n'.join(rows))
    o.append(']\n')
    o.append('/-- `shapes`: the distinct lists of (class name, codec index) — one per class returned by get_packets(context),')
    o.append('in the row order of `Gen.idTables`; `rows`: per known protocol version (KNOWN_PROTOCOL_VERSIONS order) the')
    o.append('index of its shape -/')
    o.append('structure IdxTable where\n  shapes : List (List (String × Nat))\n  rows : List (Nat × Nat)\n')
    for name, rws in tabs.items():
        shapes = []
        for _, ix in rws:
            if ix not in shapes:
                shapes.append(ix)
        o.append('def %sIdx : IdxTable where\n  shapes := [\n%s\n  ]\n  rows := [%s]\n' % (
            name, ',\n'.join('    [%s]' % ', '.join('(%s, %d)' % (lean_str(c), k) for c, k in ix) for ix in shapes),
            ', '.join('(%d, %d)' % (pv, shapes.index(ix)) for pv, ix in rws)))
    o.append('def codecIdx : List (String × IdxTable) := [%s]\n' %
             ', '.join('(%s, %sIdx)' % (lean_str(n), n) for n in tabs))
    o.append('/-- per known protocol version: [Position send, Position read, Record send, Record read, Pitch f32 send,')
    o.append('Pitch f32 read, Pitch scaled send, Pitch scaled read]; 1 / 0 = the two formats, 2 = neither -/')
    o.append('def customProbe : List (Nat × List Nat) := [\n%s\n]\n' % ',\n'.join(
        '  (%d, [%s])' % (pv, ', '.join(map(str, fl))) for pv, fl in probe))
    o.append('/-- one recorded comparison: (kind, first argument, second argument or 0, result);')
    o.append('kind 0 = protocol_earlier, 1 = protocol_earlier_eq, 2 = protocol_later, 3 = protocol_later_eq,')
    o.append('4 = protocol_in_range -/')
    o.append('abbrev SpyLog := List (Nat × Nat × Nat × Bool)\n')
    o.append('/-- the distinct logs, and per known protocol version the index of its log -/')
    o.append('structure SpyTable where\n  cls : String\n  variants : List SpyLog\n  rows : List (Nat × Nat)\n')
    for lname, cname, var, rws in spies:
        vs = ',\n'.join('    [%s]' % ', '.join('(%d, %d, %d, %s)' % (k, a, b, 'true' if r else 'false')
                                                 for k, a, b, r in log) for log in var)
        o.append('def %s : SpyTable where\n  cls := %s\n  variants := [\n%s\n  ]\n  rows := [%s]\n' % (
            lname, lean_str(cname), vs, ', '.join('(%d, %d)' % r for r in rws)))
    def ob(b):
        return 'none' if b is None else 'some [%s]' % ', '.join('0x%02x' % x for x in b)
    o.append('/-- the bytes written by the live write_fields for the sample packet (`none`: it raised), and the bytes the')
    o.append('live write_fields produces for what the live read made of them; per known protocol version the index -/')
    o.append('structure BytesTable where\n  cls : String\n  variants : List (Option Bytes × Option Bytes)\n'
             '  rows : List (Nat × Nat)\n')
    for lname, cname, var, rws in bytes_tables():
        vs = ',\n'.join('    (%s,\n     %s)' % (ob(w), ob(rw)) for w, rw in var)
        o.append('def %s : BytesTable where\n  cls := %s\n  variants := [\n%s\n  ]\n  rows := [%s]\n' % (
            lname, lean_str(cname), vs, ', '.join('(%d, %d)' % r for r in rws)))
    o.append('end PyCraft.Gen.C05D\n')
    return '\n'.join(o)


def generate():
    return [(REL, render())]


if __name__ == '__main__':
    sys.path.insert(0, os.environ.get('PYCRAFT_REPO', '/repo'))
    here = os.path.dirname(os.path.dirname(os.path.dirname(os.path.abspath(__file__))))
    for rel, text in generate():
        path = os.path.join(here, 'lean', rel)
        old = open(path).read() if os.path.exists(path) else None
        if old != text:
            os.makedirs(os.path.dirname(path), exist_ok=True)
            with open(path, 'w') as f:
                f.write(text)
        print('wrote' if old != text else 'unchanged', path, len(text), 'bytes')
