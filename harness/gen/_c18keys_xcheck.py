"""Cross-check of PyCraft/Drive/C18Keys.lean (`keys.run`, `kstack`, `kchan`) against the real code.

Stand-alone (does not need the handler to be wired into Driver.lean: it runs a tiny `main` around
`PyCraft.Drive.c18keys` with `lake env lean --run`).

  /venv/bin/python /verif/harness/gen/_c18keys_xcheck.py [seed] [number of scenarios]

Real side: a `Connection` object with a recording socket / file object, `os.urandom` replaced by a
table of draws, the REAL `LoginReactor` fed random login scripts (0-3 encryption requests under
1024/2048-bit keys, set-compression, plugin requests, success) in the schedule `schedule cap`;
observed: every chunk handed to the real socket's `send`, the number of `os.urandom` calls, the
`join` arguments, the reactor state, and the secrets recovered from the replies with the RAW RSA
private-key operation.  Lean side: `keys.run` with the same draws and the RSA ciphertexts the real
code produced.  Then the real wrapper classes stacked 1-3 deep against `kstack` / `kchan`.
"""
import sys, os, io, random, subprocess, tempfile, warnings
warnings.simplefilter('ignore')
sys.dont_write_bytecode = True
sys.path.insert(0, os.environ.get('PYCRAFT_REPO', '/repo')); sys.path.insert(0, '/verif/harness')
import rsakeys
from minecraft.networking import encryption, connection as C
from minecraft.networking.connection import Connection, LoginReactor
from minecraft.networking.packets import clientbound, serverbound

REAL_URANDOM = os.urandom

class RawSock:
    def __init__(s): s.sent = []; s.inq = []
    def send(s, d): s.sent.append(bytes(d)); return len(d)
    def recv(s, n): return s.inq.pop(0)
class RawFile:
    def __init__(s): s.inq = []
    def read(s, n): return s.inq.pop(0)
class Tok:
    def __init__(s): s.joins = []
    def join(s, h): s.joins.append(h)

def hx(b): return b.hex() if b else '-'

def scenario(rnd):
    proto = rnd.choice([47, 340, 385, 390, 391, 578, 754])
    n0 = rnd.randrange(0, 4)
    draws = [bytes(rnd.randrange(256) for _ in range(16)) for _ in range(n0 + 4)]
    nreq = rnd.choice([0, 1, 1, 1, 2, 2, 3])
    evs = []
    for i in range(nreq):
        sid = rnd.choice(['-', 'srv', '', 'a-b'])
        key = rnd.choice([rsakeys.RSA_1024, rsakeys.RSA_2048])
        tok = bytes([i + 1]) + bytes(rnd.randrange(256) for _ in range(rnd.randrange(0, 8)))
        evs.append(('enc', sid, key, tok))
    for i in range(rnd.randrange(0, 4)):
        if proto >= 385:
            evs.append(('plug', rnd.randrange(0, 400), 'ch', bytes(rnd.randrange(256) for _ in range(rnd.randrange(0, 4)))))
    for i in range(rnd.randrange(0, 3)):
        evs.append(('comp', rnd.choice([-1, 1000, 5000])))
    rnd.shuffle(evs)
    if rnd.random() < 0.7:
        evs.insert(rnd.randrange(len(evs) + 1) if rnd.random() < 0.3 else len(evs), ('succ',))
    cap = rnd.choice([1, 1, 2, 3, 50])
    return proto, n0, draws, evs, cap, rnd.random() < 0.5

def run_real(proto, n0, draws, evs, cap, has_tok):
    conn = Connection('localhost', 1, initial_version=proto)
    conn.context.protocol_version = proto
    raw = RawSock(); rawf = RawFile()
    conn.socket = raw; conn.file_object = rawf
    conn.auth_token = Tok() if has_tok else None
    conn.reactor = LoginReactor(conn)
    import collections; conn._outgoing_packet_queue = collections.deque()
    calls = []
    def fake(n):
        calls.append(n)
        return draws[n0 + len(calls) - 1]
    rsa = []
    def on_resp(p):
        rsa.append((p.shared_secret, p.verify_token))
    conn.register_packet_listener(on_resp, serverbound.login.EncryptionResponsePacket, outgoing=True)
    old_hash = encryption.generate_verification_hash
    encryption.generate_verification_hash = lambda sid, sec, pk: '%s.%s.%s' % (hx(sid.encode()), hx(sec), hx(pk))
    os.urandom = fake
    err = 'none'
    try:
        def flush():
            while conn._pop_packet():
                pass
        def mk(e):
            if e[0] == 'enc':
                p = clientbound.login.EncryptionRequestPacket(); p.server_id = e[1]
                p.public_key = e[2]['der']; p.verify_token = e[3]
            elif e[0] == 'plug':
                p = clientbound.login.PluginRequestPacket(); p.message_id = e[1]; p.channel = e[2]; p.data = e[3]
            elif e[0] == 'comp':
                p = clientbound.login.SetCompressionPacket(); p.threshold = e[1]
            elif e[0] == 'succ':
                p = clientbound.login.LoginSuccessPacket()
            p.context = conn.context
            return p
        # schedule cap: flush, up to cap reads, flush, ..., final flush
        i = 0
        while True:
            flush()
            if i >= len(evs):
                break
            k = 0
            while i < len(evs) and k < max(cap, 1):
                if isinstance(conn.reactor, LoginReactor):
                    conn._react(mk(evs[i]))
                i += 1; k += 1
    finally:
        os.urandom = REAL_URANDOM
        encryption.generate_verification_hash = old_hash
    return conn, raw, rawf, calls, rsa

def lean_line(proto, n0, draws, evs, cap, has_tok, conn, rsa):
    encid = serverbound.login.EncryptionResponsePacket.get_id(conn.context)
    plugid = serverbound.login.PluginResponsePacket.get_id(conn.context) if proto >= 385 else 99
    toks = []
    table = []
    j = 0
    for e in evs:
        if e[0] == 'enc':
            toks.append('enc:%s:%s:%s' % (hx(e[1].encode()), hx(e[2]['der']), hx(e[3])))
        elif e[0] == 'plug':
            toks.append('plug:%d:%s:%s' % (e[1], hx(e[2].encode()), hx(e[3])))
        elif e[0] == 'comp':
            toks.append('comp:%d' % e[1])
        else:
            toks.append('succ')
    # rsa table: k-th reached request used draw n0+k
    reqs = []
    for e in evs:
        if e[0] == 'succ': break
        if e[0] == 'enc': reqs.append(e)
    for k, (ct_secret, ct_tok) in enumerate(rsa):
        table.append('%s:%s' % (hx(draws[n0 + k]), hx(ct_secret)))
        table.append('%s:%s' % (hx(reqs[k][3]), hx(ct_tok)))
    return 'keys.run encid=%d plugid=%d token=%d n0=%d draws=%s rsa=%s cap=%d %s' % (
        encid, plugid, 1 if has_tok else 0, n0, ','.join(hx(d) for d in draws),
        ','.join(table) if table else '-', cap, ' '.join(toks))

def main():
    rnd = random.Random(int(sys.argv[1]) if len(sys.argv) > 1 else 1)
    N = int(sys.argv[2]) if len(sys.argv) > 2 else 60
    lines = []; expect = []
    for _ in range(N):
        sc = scenario(rnd)
        proto, n0, draws, evs, cap, has_tok = sc
        conn, raw, rawf, calls, rsa = run_real(*sc)
        assert all(c == 16 for c in calls)
        state = 'login' if isinstance(conn.reactor, LoginReactor) else 'play'
        joins = conn.auth_token.joins if has_tok else []
        # independent recovery of the secrets: raw RSA + EME parse
        keys = []
        reqs = []
        for e in evs:
            if e[0] == 'succ': break
            if e[0] == 'enc': reqs.append(e)
        for (cs, ct), e in zip(rsa, reqs):
            K = e[2]; klen = (K['n'].bit_length() + 7) // 8
            em = pow(int.from_bytes(cs, 'big'), K['d'], K['n']).to_bytes(klen, 'big')
            assert em[0] == 0 and em[1] == 2
            z = em.index(0, 2); assert z >= 10
            keys.append(em[z + 1:])
        want = 'ok wire=%s keys=%s ndraws=%d joins=%s state=%s err=none' % (
            ','.join(hx(c) for c in raw.sent) if raw.sent else '-',
            ','.join(hx(k) for k in keys) if keys else '-', n0 + len(calls),
            ','.join(joins) if joins else '-', state)
        lines.append(lean_line(proto, n0, draws, evs, cap, has_tok, conn, rsa)); expect.append(want)
    # kstack comparison: fresh stacks built directly from the real classes
    for _ in range(N):
        depth = rnd.randrange(1, 4)
        secrets = [bytes(rnd.randrange(256) for _ in range(16)) for _ in range(depth)]
        raw = RawSock(); rawf = RawFile(); sock = raw; fo = rawf
        for s in secrets:
            ci = encryption.create_AES_cipher(s); e = ci.encryptor(); d = ci.decryptor()
            sock = encryption.EncryptedSocketWrapper(sock, e, d)
            fo = encryption.EncryptedFileObjectWrapper(fo, d)
        ops = []; outs = []
        for _ in range(rnd.randrange(1, 8)):
            kind = rnd.choice('srf')
            data = bytes(rnd.randrange(256) for _ in range(rnd.randrange(0, 20)))
            if kind == 's':
                sock.send(data); outs.append(raw.sent[-1])
            elif kind == 'r':
                raw.inq.append(data); outs.append(sock.recv(len(data)))
            else:
                rawf.inq.append(data); outs.append(fo.read(len(data)))
            ops.append('%s:%s' % (kind, hx(data)))
        lines.append('kstack %s %s' % (','.join(hx(s) for s in secrets), ' '.join(ops)))
        expect.append('ok ' + ' '.join(hx(o) for o in outs))
        if depth == 1:
            lines.append('kchan %s %s' % (hx(secrets[0]), ' '.join(ops)))
            expect.append('ok ' + ' '.join(hx(o) for o in outs))
    real = list(zip(lines, expect))
    main_src = '''import PyCraft.Drive.C18Keys
open PyCraft PyCraft.Drive
partial def loop (h : IO.FS.Stream) (out : IO.FS.Stream) : IO Unit := do
  let line ← h.getLine
  if line.isEmpty then return ()
  let toks := (line.trimAscii.toString.splitOn " ").filter (· ≠ "")
  out.putStrLn (match c18keys toks with | some r => r | none => "bad-op")
  loop h out
def main : IO Unit := do
  let out ← IO.getStdout
  loop (← IO.getStdin) out
  out.flush
'''
    tmp = tempfile.mkdtemp()
    with open(os.path.join(tmp, 'Main.lean'), 'w') as f:
        f.write(main_src)
    p = subprocess.run(['lake', 'env', 'lean', '--run', os.path.join(tmp, 'Main.lean')], cwd='/verif/lean',
                       input='\n'.join(l for l, _ in real) + '\n', capture_output=True, text=True)
    got = p.stdout.splitlines()
    assert len(got) == len(real), (len(got), len(real), p.stderr[:2000])
    bad = 0
    for (l, e), g in zip(real, got):
        if g != e:
            bad += 1
            if bad <= 3:
                print('MISMATCH\n ', l[:300], '\n  want', e[:600], '\n  got ', g[:600])
    print('lines', len(real), 'mismatches', bad)
    sys.exit(1 if bad else 0)

if __name__ == '__main__':
    main()
