"""Generator for lean/PyCraft/Generated/C01Dispatch.lean (property C01, audit gap 22).

Evaluates the LIVE code of /repo and tabulates three small sets of observations:

  loginTable<pv>  `LoginReactor(conn).clientbound_packets` under protocol versions 47 and 757:
                  (id, definition) sorted by id — the id table `read_packet` dispatches on.
  writeProbes     the real `Connection._write_packet` (connection.py:333-348) for a grid of
                  (compression_enabled, compression_threshold) and small packets: the `send` calls.
  optProbes       who assigns the two variables: the real `Connection._connect` (socket module
                  stubbed), `LoginReactor.react` and `PlayingReactor.react` on a real
                  "set compression" packet: options before -> options after.
  readProbes      the real `PacketReactor.read_packet` (as `LoginReactor`, real table) called in a
                  loop on hand-built streams in which known and unknown ids are interleaved
                  (plain / data-length framing / zlib; whole, byte-wise and cut segmentations;
                  trailing garbage in a known packet; a known packet whose `read` raises; a
                  truncated last frame): what was handed on — class found or bare `Packet`, the id,
                  the field values, the UNREAD rest of the frame's `PacketBuffer` — and the
                  exception that ended the loop.
  zpairs          the (zlib.compress output, input) pairs that occurred.

The streams are built here from the wire format (not with pyCraft's writer).  The Lean theorems
`PyCraft.C01Dispatch.live_*` (Props/C01DispatchLive.lean) compare every
row with the model by `decide +kernel`; they are re-checked against what the code says NOW each time
this file is regenerated.

`generate()` -> [(path relative to /verif/lean, Lean source text)].
"""
import os
import struct
import sys
import types
import zlib

REL = 'PyCraft/Generated/C01Dispatch.lean'
VERSIONS = (47, 757)


def _setup():
    if 'minecraft' not in sys.modules:
        repo = os.environ.get('PYCRAFT_REPO', '/repo')
        if repo not in sys.path:
            sys.path.insert(0, repo)
    import minecraft  # noqa
    return minecraft


# ------------------------------------------------------------------ wire format (from the spec)

def _varint(n):
    out = bytearray()
    while True:
        b = n & 0x7F
        n >>= 7
        out.append(b | (0x80 if n else 0))
        if not n:
            return bytes(out)


def _frame(pid, fields, mode, zp):
    """mode: None = no data-length field; 'zero' = data-length 0; 'zlib' = compressed"""
    payload = _varint(pid) + fields
    if mode is None:
        body = payload
    elif mode == 'zero':
        body = b'\x00' + payload
    else:
        comp = zlib.compress(payload)
        zp[comp] = payload
        body = _varint(len(payload)) + comp
    return _varint(len(body)) + body


def _s(text):
    b = text.encode('utf-8')
    return _varint(len(b)) + b


def _ba(b):
    return _varint(len(b)) + b


# ------------------------------------------------------------------ Lean rendering

def _bytes(b):
    return '[' + ', '.join('0x%02x' % x for x in b) + ']'


def _str(s):
    out = ['"']
    for ch in s:
        if ch in '"\\':
            out.append('\\' + ch)
        elif 32 <= ord(ch) < 127:
            out.append(ch)
        elif ord(ch) < 0x10000:
            out.append('\\u%04x' % ord(ch))
        else:
            out.append(ch)
    out.append('"')
    return ''.join(out)


def _int(i):
    return '(%d)' % i if i < 0 else '%d' % i


def _bool(b):
    return 'true' if b else 'false'


def _value(v):
    if isinstance(v, bool):
        return '.bool %s' % _bool(v)
    if isinstance(v, int):
        return '.int %s' % _int(v)
    if isinstance(v, (bytes, bytearray)):
        return '.bytes %s' % _bytes(bytes(v))
    if isinstance(v, str):
        return '.str %s' % _str(v)
    raise TypeError('value %r has no Lean rendering' % (v,))


def _wtype(t):
    from minecraft.networking.types import basic as B
    simple = {B.Boolean: '.bool', B.Byte: '.int .i8', B.UnsignedByte: '.int .u8', B.Short: '.int .i16',
              B.Integer: '.int .i32', B.Long: '.int .i64', B.VarInt: '.varint', B.String: '.string',
              B.UUID: '.uuid', B.VarIntPrefixedByteArray: '.bytesVarint',
              B.ShortPrefixedByteArray: '.bytesShort', B.TrailingByteArray: '.trailing'}
    if isinstance(t, type) and t in simple:
        return simple[t]
    raise KeyError('wire type %r has no rendering in gen/c01dispatch.py' % (t,))


def _err(e):
    if isinstance(e, EOFError):
        return '.eof'
    if isinstance(e, AssertionError):
        return '.assertion'
    if isinstance(e, zlib.error):
        return '.zlib'
    if isinstance(e, UnicodeDecodeError):
        return '.decode'
    if isinstance(e, ValueError) and 'too long' in str(e):
        return '.tooLong'
    if isinstance(e, struct.error):
        return '.struct'
    if isinstance(e, ValueError):
        return '.value'
    if isinstance(e, TypeError):
        return '.type'
    return '.other'


# ------------------------------------------------------------------ observations

class _Sock(object):
    def __init__(self):
        self.sends = []

    def send(self, d):
        self.sends.append(bytes(d))
        return len(d)


class _SegStream(object):
    """unbuffered socket file: read(n) returns 1..n bytes of the first arrived segment, b'' at EOF"""

    def __init__(self, segs):
        self.segs = [s for s in segs if s]

    def read(self, n=-1):
        if n == 0 or not self.segs:
            return b''
        s = self.segs[0]
        if n < 0 or n >= len(s):
            self.segs.pop(0)
            return s
        self.segs[0] = s[n:]
        return s[:n]

    def fileno(self):
        return 7


def _login_table(pv):
    import minecraft.networking.connection as C
    ctx = C.ConnectionContext(protocol_version=pv)
    conn = types.SimpleNamespace(context=ctx, options=C._ConnectionOptions())
    reactor = C.LoginReactor(conn)
    rows = []
    for pid, cls in sorted(reactor.clientbound_packets.items()):
        lay = [(n, _wtype(t)) for f in cls.get_definition(ctx) for n, t in f.items()]
        rows.append((pid, lay))
    return rows


def _write_probes(zp):
    import minecraft.networking.connection as C
    from minecraft.networking.packets import Packet
    from minecraft.networking.types import TrailingByteArray
    rows = []
    pkts = [(5, b'ab'), (0x7f, b''), (300, bytes(range(1, 9)))]
    for enabled in (False, True):
        for thr in (-1, 0, 2, 5, 100, -7):
            for pid, body in pkts:
                conn = C.Connection('localhost', 25565)
                conn.socket = _Sock()
                conn.options.compression_enabled = enabled
                conn.options.compression_threshold = thr
                p = Packet()
                p.id = pid
                p.definition = [{'payload': TrailingByteArray}]
                p.payload = body
                p.context = conn.context
                conn._write_packet(p)
                payload = _varint(pid) + body
                zp[zlib.compress(payload)] = payload
                rows.append((enabled, thr, pid, body, conn.socket.sends))
    return rows


def _opt_probes():
    import minecraft.networking.connection as C
    from minecraft.networking.packets import clientbound
    rows = []
    befores = [(False, -1), (True, 256), (False, 77), (True, -1)]

    def conn_with(b, pv=47):
        conn = C.Connection('localhost', 25565, initial_version=pv)
        conn.context.protocol_version = pv
        conn.options.compression_enabled, conn.options.compression_threshold = b
        return conn

    def after(conn):
        return (bool(conn.options.compression_enabled), int(conn.options.compression_threshold))

    # _connect with the socket module stubbed
    class _FakeSocket(object):
        def __init__(self, *a):
            pass

        def connect(self, addr):
            pass

        def makefile(self, *a):
            return None
    fake = types.SimpleNamespace(AF_INET=2, AF_INET6=10, SOCK_STREAM=1, socket=_FakeSocket,
                                 getaddrinfo=lambda *a: [(2, 1, 6, '', ('127.0.0.1', 25565))])
    saved = C.socket
    C.socket = fake
    try:
        for b in befores:
            conn = conn_with(b)
            conn._connect()
            rows.append(('.connect', b, after(conn)))
    finally:
        C.socket = saved
    for b in befores:
        for t in (-1, 0, 256, 5):
            conn = conn_with(b)
            pkt = clientbound.login.SetCompressionPacket(threshold=t)
            C.LoginReactor(conn).react(pkt)
            rows.append(('.setCompression %s' % _int(t), b, after(conn)))
            conn = conn_with(b)
            pkt = clientbound.play.SetCompressionPacket(threshold=t)
            C.PlayingReactor(conn).react(pkt)
            rows.append(('.setCompression %s' % _int(t), b, after(conn)))
    return rows


def _read_probes(zp):
    import minecraft.networking.connection as C
    from minecraft.networking.packets import Packet
    import minecraft.networking.packets as P

    hi = (0, _s('hi'))
    unk5 = (5, b'\xaa\xbb')
    setc = (3, _varint(300))
    unk7f = (0x7f, b'')
    plugin = (4, _varint(7) + _s('ch') + b'\x01\x02')
    encreq = (1, _s('') + _ba(b'\x01\x02') + _ba(b'\x09'))
    unk300 = (300, b'\x00' * 3)
    accent = (0, _s(u'é'))
    garbage = (3, _varint(300) + b'\xff\xfe')
    trunc = (3, b'\xac')          # VarInt with continuation bit, then nothing: EOFError in read
    badutf = (0, b'\x02\xff\xfe')  # String of 2 bytes that are no UTF-8: UnicodeDecodeError in read
    scenarios = [
        ('mixed', [hi, unk5, setc, unk7f]),
        ('id4', [plugin, setc, unk300, accent]),
        ('encreq', [unk7f, encreq, unk5]),
        ('garbage', [unk5, garbage, unk7f]),
        ('raises', [unk5, trunc, unk7f, hi]),
        ('raises2', [setc, unk7f, badutf, unk5, hi]),
    ]
    rows = []
    saved_select, saved_buf = C.select, P.PacketBuffer
    made = []

    class SpyBuffer(saved_buf):
        def __init__(self, *a, **k):
            saved_buf.__init__(self, *a, **k)
            made.append(self)
    C.select = types.SimpleNamespace(select=lambda r, w, x, t=None: (list(r), [], []))
    P.PacketBuffer = SpyBuffer
    try:
        for pv in VERSIONS:
            for name, pkts in scenarios:
                for mode in (None, 'zero', 'zlib'):
                    wire = b''.join(_frame(pid, f, mode, zp) for pid, f in pkts)
                    variants = [('whole', [wire]), ('bytes', [wire[i:i + 1] for i in range(len(wire))])]
                    if name == 'mixed':
                        variants.append(('cut', [wire[:len(wire) // 2 - 1], b'', wire[len(wire) // 2 - 1:]]))
                        variants.append(('short', [wire[:-1]]))
                    if mode is not None and name not in ('mixed', 'raises', 'raises2'):
                        variants = variants[:1]
                    for vname, segs in variants:
                        ctx = C.ConnectionContext(protocol_version=pv)
                        conn = types.SimpleNamespace(
                            context=ctx,
                            options=C._ConnectionOptions(compression_enabled=mode is not None,
                                                         compression_threshold=-1 if mode != 'zlib' else 1))
                        reactor = C.LoginReactor(conn)
                        stream = _SegStream(segs)
                        got, end = [], None
                        for _ in range(len(pkts) + 3):
                            del made[:]
                            try:
                                p = reactor.read_packet(stream, timeout=0)
                            except Exception as e:  # noqa
                                end = _err(e)
                                break
                            unread = made[0].read()
                            if type(p) is Packet:
                                got.append('.bare %d %s' % (p.id, _bytes(unread)))
                            else:
                                ctxp = p.context
                                vals = [getattr(p, n) for f in type(p).get_definition(ctxp) for n in f]
                                got.append('.known %d [%s] %s' % (p.id, ', '.join(_value(v) for v in vals),
                                                                  _bytes(unread)))
                        if end is None:
                            end = '.other'
                        rows.append((pv, mode is not None, segs, got, end, '%s/%s/%s' % (name, mode, vname)))
    finally:
        C.select, P.PacketBuffer = saved_select, saved_buf
    return rows


def generate():
    _setup()
    zp = {}
    tables = [(pv, _login_table(pv)) for pv in VERSIONS]
    wp = _write_probes(zp)
    op = _opt_probes()
    rp = _read_probes(zp)
    out = ['/- GENERATED by harness/gen/c01dispatch.py from the live code of /repo; do not edit.',
           '   loginTable<pv>: LoginReactor(conn).clientbound_packets under protocol <pv>: (id, definition)',
           '   writeProbes   : ((compression_enabled, compression_threshold), (id, field bytes), the send calls of',
           '                   the real Connection._write_packet)',
           '   optProbes     : (event, options before, options after) for the real _connect / LoginReactor.react /',
           '                   PlayingReactor.react',
           '   readProbes<i> : (protocol, compression_enabled, arrival segments, what the real read_packet loop',
           '                   handed on, the exception that ended it)',
           '   zpairs        : (zlib.compress(x), x) pairs that occurred -/',
           'import PyCraft.Model.C01Dispatch',
           'namespace PyCraft.Gen.C01Dispatch', 'open PyCraft', '']
    out.append('def zpairs : List (Bytes × Bytes) := [')
    out.append(',\n'.join('  (%s, %s)' % (_bytes(c), _bytes(p)) for c, p in sorted(zp.items())))
    out.append(']')
    out.append('')
    for pv, rows in tables:
        out.append('def loginTable%d : List (Nat × Layout) := [' % pv)
        out.append(',\n'.join('  (%d, [%s])' % (pid, ', '.join('(%s, %s)' % (_str(n), t) for n, t in lay))
                              for pid, lay in rows))
        out.append(']')
        out.append('')
    out.append('def writeProbes : List ((Bool × Int) × (Nat × Bytes) × List Bytes) := [')
    out.append(',\n'.join('  ((%s, %s), (%d, %s), [%s])' % (_bool(e), _int(t), pid, _bytes(body),
                                                            ', '.join(_bytes(s) for s in sends))
                          for e, t, pid, body, sends in wp))
    out.append(']')
    out.append('')
    out.append('def optProbes : List (OptEv × (Bool × Int) × (Bool × Int)) := [')
    out.append(',\n'.join('  (%s, (%s, %s), (%s, %s))' % (ev, _bool(b[0]), _int(b[1]), _bool(a[0]), _int(a[1]))
                          for ev, b, a in op))
    out.append(']')
    out.append('')
    chunk = 12
    names = []
    ty = 'List (Nat × Bool × List Bytes × List (Delivered (List Value)) × Err)'
    for i in range(0, len(rp), chunk):
        nm = 'readProbes%d' % (i // chunk)
        names.append(nm)
        out.append('def %s : %s := [' % (nm, ty))
        out.append(',\n'.join('  -- %s\n  (%d, %s, [%s],\n    [%s], %s)'
                              % (tag, pv, _bool(en), ', '.join(_bytes(s) for s in segs), ', '.join(got), end)
                              for pv, en, segs, got, end, tag in rp[i:i + chunk]))
        out.append(']')
        out.append('')
    out.append('def readProbeChunks : List (%s) := [%s]' % (ty, ', '.join(names)))
    out += ['', 'end PyCraft.Gen.C01Dispatch', '']
    return [(REL, '\n'.join(out))]


if __name__ == '__main__':
    base = os.path.join(os.path.dirname(os.path.dirname(os.path.dirname(os.path.abspath(__file__)))), 'lean')
    for rel, text in generate():
        path = os.path.join(base, rel)
        old = open(path).read() if os.path.exists(path) else None
        if old != text:
            os.makedirs(os.path.dirname(path), exist_ok=True)
            with open(path, 'w') as f:
                f.write(text)
        print('wrote' if old != text else 'unchanged', path)
