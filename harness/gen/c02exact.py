"""Generator for lean/PyCraft/Generated/WireFormats.lean: probes of the LIVE primitive wire types of
minecraft/networking/types/basic.py (class -> wire format, FixedPoint instances, UUID text <-> bytes,
Float/Double value <-> IEEE-754 pattern, Angle), checked in Lean by `decide +kernel` against the models
of Model/Wire.lean and Model/C02Exact.lean (Props/C02Exact.lean, section "live probes").

generate() -> [(path relative to /verif/lean, Lean source text)], evaluated on the live code.
Run alone:  /venv/bin/python /verif/harness/gen/c02exact.py   (writes the file)
"""
import io
import os
import struct
import sys
from fractions import Fraction

REPO = os.environ.get('PYCRAFT_REPO', '/repo')


def _basic():
    if 'minecraft' not in sys.modules and REPO not in sys.path:
        sys.path.insert(0, REPO)
    from minecraft.networking.types import basic
    return basic


class _Sock(object):
    def __init__(self):
        self.data = b''

    def send(self, d):
        self.data += bytes(d)


def _err(e):
    import struct as _s
    if isinstance(e, _s.error):
        return '.struct'
    if isinstance(e, OverflowError):
        return '.other'
    if isinstance(e, EOFError):
        return '.eof'
    if isinstance(e, UnicodeDecodeError):
        return '.decode'
    if isinstance(e, ValueError):
        return '.value'
    if isinstance(e, TypeError):
        return '.type'
    if isinstance(e, AssertionError):
        return '.assertion'
    return '.other'


def _send(t, v):
    """-> ('ok', bytes) | ('err', lean Err constructor)"""
    s = _Sock()
    try:
        t.send(v, s)
    except Exception as e:  # noqa
        return ('err', _err(e))
    return ('ok', s.data)


def _read(t, data):
    """-> ('ok', value, rest bytes) | ('err', ctor)"""
    f = io.BytesIO(data)
    try:
        v = t.read(f)
    except Exception as e:  # noqa
        return ('err', _err(e))
    return ('ok', v, f.read())


def lean_str(s):
    out = ['"']
    for ch in s:
        if ch in '"\\':
            out.append('\\' + ch)
        elif ord(ch) < 32 or ord(ch) == 127:
            out.append('\\x%02x' % ord(ch))
        else:
            out.append(ch)
    out.append('"')
    return ''.join(out)


def lean_bytes(b):
    return '[' + ', '.join(str(x) for x in b) + ']'


def lean_int(i):
    return '(%d)' % i


def lean_value(v):
    if isinstance(v, bool):
        return '.bool ' + ('true' if v else 'false')
    if isinstance(v, int):
        return '.int ' + lean_int(v)
    if isinstance(v, (bytes, bytearray)):
        return '.bytes ' + lean_bytes(v)
    if isinstance(v, str):
        return '.str ' + lean_str(v)
    raise TypeError(v)


def lean_res(r):
    return '.ok ' + lean_bytes(r[1]) if r[0] == 'ok' else '.error ' + r[1]


def scalar_rows(B):
    vals = {
        'Boolean': [True, False],
        'UnsignedByte': [0, 1, 127, 128, 255, 256, -1],
        'Byte': [-128, -1, 0, 127, 128, -129],
        'Short': [-32768, -2, 0, 258, 32767, 32768, -32769],
        'UnsignedShort': [0, 258, 65535, 65536, -1],
        'Integer': [-2 ** 31, -2, 0, 0x01020304, 2 ** 31 - 1, 2 ** 31, -2 ** 31 - 1],
        'Long': [-2 ** 63, -2, 0, 0x0102030405060708, 2 ** 63 - 1, 2 ** 63],
        'UnsignedLong': [0, 0x0102030405060708, 2 ** 64 - 1, 2 ** 64, -1],
        'VarInt': [0, 1, 127, 128, 300, 2 ** 31 - 1, 2 ** 32 - 1, -1],
        'VarLong': [0, 128, 2 ** 32, 2 ** 63 - 1, 2 ** 64 - 1, -1],
        'String': ['', 'hi', 'é', '€', '\U0001F600', 'a\x00b', 'a' * 127, 'a' * 128],
        'VarIntPrefixedByteArray': [b'', b'\x01\x02', bytes(range(128))],
        'ShortPrefixedByteArray': [b'', b'abc', bytes(range(256)) + b'\x00'],
        'TrailingByteArray': [b'', b'xyz'],
    }
    rows = []
    for name in sorted(vals):
        t = getattr(B, name)
        for v in vals[name]:
            r = _send(t, v)
            back = 'none'
            if r[0] == 'ok' and name != 'TrailingByteArray':
                rd = _read(t, r[1] + b'\xaa\xbb')
                if rd[0] == 'ok' and rd[2] == b'\xaa\xbb':
                    back = 'some (%s)' % lean_value(rd[1])
            elif r[0] == 'ok':
                rd = _read(t, r[1])
                if rd[0] == 'ok' and rd[2] == b'':
                    back = 'some (%s)' % lean_value(rd[1])
            rows.append('(%s, %s, %s, %s)' % (lean_str(name), lean_value(v), lean_res(r), back))
    return rows


def f64(pattern):
    return struct.unpack('>d', struct.pack('>Q', pattern))[0]


def float_rows(B):
    pats = [0x0000000000000000, 0x8000000000000000, 0x3FF0000000000000, 0xBFF0000000000000,
            0x3FB999999999999A,                      # 0.1
            0x3F1A36E2EB1C432D,                      # 0.0001
            0x400921FB54442D18,                      # pi
            0x3FF0000010000000,                      # 1 + 2^-24: tie -> even (down)
            0x3FF0000030000000,                      # 1 + 3*2^-24: tie -> even (up)
            0x3FF0000010000001,                      # just above the tie
            0x3FEFFFFFF0000000,                      # tie below 1 -> 1.0 (carry into the exponent)
            0x36A0000000000000,                      # 2^-149: least subnormal binary32
            0x3690000000000000,                      # 2^-150: tie -> 0
            0x3690000000000001,                      # just above -> 2^-149
            0x380FFFFFFFFFFFFF,                      # just below 2^-126 -> least normal
            0x3800000000000000,                      # 2^-127 : subnormal binary32
            0x0000000000000001, 0x000FFFFFFFFFFFFF,  # binary64 subnormals -> 0
            0x47EFFFFFE0000000,                      # largest binary32
            0x47EFFFFFEFFFFFFF,                      # just below the overflow tie
            0x47EFFFFFF0000000,                      # the overflow tie 2^128 - 2^103 -> OverflowError
            0x47F0000000000000, 0x7FEFFFFFFFFFFFFF,  # 2^128, largest binary64
            0xC7EFFFFFF0000000,
            0x7FF0000000000000, 0xFFF0000000000000,  # infinities
            0x7FF8000000000000, 0xFFF8000000000001, 0x7FF0000000000001, 0xFFF4000000ABCDEF,  # NaNs
            0xC05EDD3C07EE0B0B]                      # -123.4567
    send, dbl = [], []
    for x in pats:
        v = f64(x)
        r = _send(B.Float, v)
        send.append('(0x%016X, %s)' % (x, lean_res(r)))
        rd = _send(B.Double, v)
        back = _read(B.Double, rd[1])
        assert back[0] == 'ok'
        bp = struct.unpack('>Q', struct.pack('>d', back[1]))[0]
        if v != v or v in (float('inf'), float('-inf')):
            units = 'none'
        else:
            fr = Fraction(abs(v)) * 2 ** 1074          # float.as_integer_ratio, independent of struct
            assert fr.denominator == 1
            import math
            units = 'some (%s, %d)' % ('true' if math.copysign(1.0, v) < 0 else 'false', fr.numerator)
        dbl.append('(0x%016X, %s, 0x%016X, %s)' % (x, lean_res(rd), bp, units))
    rpats = [0x00000000, 0x80000000, 0x00000001, 0x007FFFFF, 0x00800000, 0x3F800000, 0x3DCCCCCD, 0xC2F6E979,
             0x7F7FFFFF, 0x7F800000, 0xFF800000, 0x7FC00000, 0x7F800001, 0xFFC12345, 0x7FA00000, 0x00012345]
    read = []
    for r in rpats:
        data = struct.pack('>I', r)
        rd = _read(B.Float, data + b'\x07')
        assert rd[0] == 'ok' and rd[2] == b'\x07'
        bp = struct.unpack('>Q', struct.pack('>d', rd[1]))[0]
        read.append('(%s, 0x%016X)' % (lean_bytes(data), bp))
    return send, dbl, read


def uuid_rows(B):
    texts = ['00010203-0405-0607-0809-0a0b0c0d0e0f', 'ffffffff-ffff-ffff-ffff-ffffffffffff',
             '00000000-0000-0000-0000-000000000000', '12345678-9abc-def0-1234-56789abcdef0',
             '12345678-9ABC-DEF0-1234-56789ABCDEF0', '{12345678-9abc-def0-1234-56789abcdef0}',
             'urn:uuid:12345678-9abc-def0-1234-56789abcdef0', '123456789abcdef0123456789abcdef0',
             '12345678-9abc-def0-1234-56789abcdef', '12345678-9abc-def0-1234-56789abcdefg',
             '+123456789abcdef0123456789abcdef', '0x3456789abcdef0123456789abcdef0',
             '1_3456789abcdef0123456789abcdef0', ' 23456789abcdef0123456789abcdef0',
             '1__456789abcdef0123456789abcdef0', '']
    send = []
    for s in texts:
        send.append('(%s, %s)' % (lean_str(s), lean_res(_send(B.UUID, s))))
    datas = [bytes(range(16)), b'\xff' * 16, bytes(16), bytes.fromhex('123456789abcdef0123456789abcdef0') + b'\x01\x02',
             bytes(15), b'']
    read = []
    for d in datas:
        rd = _read(B.UUID, d)
        if rd[0] == 'ok':
            read.append('(%s, .ok (%s, %s))' % (lean_bytes(d), lean_str(rd[1]), lean_bytes(rd[2])))
        else:
            read.append('(%s, .error %s)' % (lean_bytes(d), rd[1]))
    return send, read


def fixed_rows(B):
    fpi = B.FixedPointInteger
    inst = '(%s, %d)' % (lean_str(fpi.integer_type.__name__), fpi.denominator)
    dflt = B.FixedPoint(B.Byte)
    dflt_row = '(%s, %d)' % (lean_str(dflt.integer_type.__name__), dflt.denominator)
    cases = [('Integer', 5), ('Byte', 5), ('Short', 12), ('Integer', 0), ('Short', 4), ('UnsignedByte', 3),
             ('Long', 20)]
    values = [(0, 1), (1, 1), (-1, 1), (3, 4), (-7, 2), (1, 32), (-1, 32), (1, 64), (-1, 64), (33, 64),
              (255, 8), (-1025, 256), (1, 4096), (-4097, 8192), (67108863, 1), (67108864, 1), (-67108865, 1),
              (4, 1), (-5, 1), (1023, 256), (8, 1), (-8, 1), (-9, 1),
              (2 ** 1003, 1), (2 ** 1004, 1), (-2 ** 1004, 1), (2 ** 1018, 1), (2 ** 1019, 1), (-2 ** 1023, 1)]
    send, read = [], []
    for cname, bits in cases:
        t = B.FixedPoint(getattr(B, cname), bits)
        assert t.denominator == 2 ** bits or True
        for p, q in values:
            v = p / q
            assert Fraction(v) == Fraction(p, q)
            send.append('(%s, %d, %d, %s, %s, %s)' % (lean_str(cname), bits, t.denominator, lean_int(p), lean_int(q),
                                                      lean_res(_send(t, v))))
        w = struct.calcsize({'Integer': 'i', 'Byte': 'b', 'Short': 'h', 'UnsignedByte': 'B', 'Long': 'q'}[cname])
        for data in [bytes(w), b'\xff' * w, b'\x80' + bytes(w - 1), bytes(range(1, w + 1)), b'\x7f' + b'\xff' * (w - 1)]:
            if w == 8:
                data = b'\x00\x00' + data[2:] if data[0] not in (0xff, 0x80) else b'\xff\xff\xff' + data[3:]
            rd = _read(t, data + b'\x09')
            assert rd[0] == 'ok' and rd[2] == b'\x09'
            fr = Fraction(rd[1])
            read.append('(%s, %d, %s, %s, %d)' % (lean_str(cname), bits, lean_bytes(data), lean_int(fr.numerator),
                                                  fr.denominator))
    return inst, dflt_row, send, read


def angle_rows(B):
    vals = [(0, 1), (90, 1), (-90, 1), (180, 1), (359, 1), (360, 1), (720, 1), (45, 2), (1, 4), (-1, 4),
            (1439, 4), (2879, 8), (45, 64), (135, 64), (225, 64), (-45, 64), (100000, 1), (-123456, 1)]
    send = []
    for p, q in vals:
        v = p / q
        assert Fraction(v) == Fraction(p, q)
        send.append('(%s, %s, %s)' % (lean_int(p), lean_int(q), lean_res(_send(B.Angle, v))))
    read = []
    for b in [0, 1, 64, 127, 128, 200, 255]:
        rd = _read(B.Angle, bytes([b]))
        fr = Fraction(rd[1])
        read.append('(%d, %s, %d)' % (b, lean_int(fr.numerator), fr.denominator))
    return send, read


def _chunks(name, typ, rows, per=40):
    """def name_k : List typ (chunks of `per` rows) and def name : List (List typ)"""
    out, names = [], []
    for k in range(0, max(len(rows), 1), per):
        n = '%s_%d' % (name, k // per)
        names.append(n)
        out.append('def %s : List (%s) := [\n  %s\n]\n' % (n, typ, ',\n  '.join(rows[k:k + per])))
    out.append('def %s : List (List (%s)) := [%s]\n' % (name, typ, ', '.join(names)))
    return out


def generate():
    B = _basic()
    out = ['/- GENERATED by harness/gen/c02exact.py by evaluating the live classes of',
           '   minecraft/networking/types/basic.py. Do not edit. Checked in Props/C02Exact.lean. -/',
           'import PyCraft.Model.Wire', 'namespace PyCraft.Gen.WireFormats', 'open PyCraft', '']
    out.append('/-- `basic.__all__` -/')
    out.append('def allNames : List String := [%s]\n' % ', '.join(lean_str(n) for n in B.__all__))
    out.append('/-- (class, value sent, bytes produced or error, value read back from bytes ++ [0xaa, 0xbb]) -/')
    out += _chunks('scalarProbes', 'String × Value × Except Err Bytes × Option Value', scalar_rows(B))
    fs, fd, fr = float_rows(B)
    out.append('/-- (binary64 pattern of the Python float, result of `Float.send`) -/')
    out += _chunks('floatSendProbes', 'Nat × Except Err Bytes', fs)
    out.append('/-- (binary64 pattern x, result of `Double.send`, pattern read back by `Double.read`,')
    out.append('    for finite x: (negative?, |value| · 2^1074 computed by `float.as_integer_ratio`)) -/')
    out += _chunks('doubleProbes', 'Nat × Except Err Bytes × Nat × Option (Bool × Nat)', fd)
    out.append('/-- (4 bytes, binary64 pattern of `Float.read(bytes ++ [7])`) -/')
    out += _chunks('floatReadProbes', 'Bytes × Nat', fr)
    us, ur = uuid_rows(B)
    out.append('/-- (text, result of `UUID.send`) -/')
    out += _chunks('uuidSendProbes', 'String × Except Err Bytes', us)
    out.append('/-- (bytes, result of `UUID.read`: text and unread rest) -/')
    out += _chunks('uuidReadProbes', 'Bytes × Except Err (String × Bytes)', ur)
    inst, dflt, xs, xr = fixed_rows(B)
    out.append('/-- `FixedPointInteger`: (integer_type.__name__, denominator) -/')
    out.append('def fixedPointInteger : String × Nat := %s\n' % inst)
    out.append('/-- `FixedPoint(Byte)` (default fractional_bits): (integer_type.__name__, denominator) -/')
    out.append('def fixedDefault : String × Nat := %s\n' % dflt)
    out.append('/-- (integer class, fractional_bits, live denominator, p, q, result of `FixedPoint(cls, bits).send(p / q)`) -/')
    out += _chunks('fixedSendProbes', 'String × Nat × Nat × Int × Int × Except Err Bytes', xs)
    out.append('/-- (integer class, fractional_bits, bytes, reduced fraction of `FixedPoint(cls, bits).read(bytes ++ [9])`) -/')
    out += _chunks('fixedReadProbes', 'String × Nat × Bytes × Int × Nat', xr)
    as_, ar = angle_rows(B)
    out.append('/-- (p, q, result of `Angle.send(p / q)`) -/')
    out += _chunks('angleSendProbes', 'Int × Int × Except Err Bytes', as_)
    out.append('/-- (byte, reduced fraction of `Angle.read`) -/')
    out += _chunks('angleReadProbes', 'Nat × Int × Nat', ar)
    out.append('end PyCraft.Gen.WireFormats')
    return [('PyCraft/Generated/WireFormats.lean', '\n'.join(out) + '\n')]


if __name__ == '__main__':
    root = os.path.join(os.path.dirname(os.path.dirname(os.path.dirname(os.path.abspath(__file__)))), 'lean')
    for rel, text in generate():
        path = os.path.join(root, rel)
        old = open(path).read() if os.path.exists(path) else None
        if old != text:
            with open(path, 'w') as f:
                f.write(text)
            print('wrote', path)
        else:
            print('unchanged', path)
