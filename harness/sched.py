"""Scheduled simnet: real threads under a baton scheduler (DESIGN.md section 4).

Only the holder of the baton runs.  Every operation through which pyCraft threads interact is an
instrumented *atomic action*: the thread parks BEFORE the action, the scheduler picks an enabled
thread, that thread performs exactly one action (logging an event) and runs on until it parks before
its next action.  The sequence of thread ids actually run is the schedule handed to the Lean model,
which must produce the same event log (trace refinement).

Atomic actions (event names as in Model/Writers.lean): acq rel app chk pop snd rdi sti shut cls sel
end.  pyCraft's function bodies are not replaced: the instrumented objects are stand-ins for
`RLock`, `deque`, the socket, `select` and the `interrupt` attribute of the networking thread.
"""
import collections
import threading
import types


class Deadlock(Exception):
    pass


class Killed(BaseException):
    """raised inside parked threads when the scheduler abandons a run (step limit)"""


class Sched:
    def __init__(self, rng, step_limit=20000):
        self.rng = rng
        self.cv = threading.Condition()
        self.tid = {}            # thread ident -> tid
        self.state = {}          # tid -> 'new' | 'parked' | 'running' | 'done'
        self.pending = {}        # tid -> (kind, obj) of the action it is parked before
        self.running = None
        self.log = []            # (tid, kind, detail...)
        self.ran = []            # tids in execution order = the schedule
        self.step_limit = step_limit
        self.errors = []         # exceptions escaping thread bodies
        self.current_pkt = {}    # tid -> packet id being written (for snd events)
        self.killed = False

    def add(self, tid):
        with self.cv:
            self.state[tid] = 'new'

    # ------------------------------------------------------------ thread side
    def me(self):
        return self.tid.get(threading.get_ident())

    def register_current(self, tid):
        with self.cv:
            self.tid[threading.get_ident()] = tid

    def before(self, kind, obj=None):
        """park before an atomic action; returns when scheduled.  No-op for unregistered threads."""
        me = self.me()
        if me is None:
            return None
        with self.cv:
            self.pending[me] = (kind, obj)
            self.state[me] = 'parked'
            if self.running == me:
                self.running = None
            self.cv.notify_all()
            while self.running != me and not self.killed:
                self.cv.wait()
            if self.killed:
                self.state[me] = 'done'
                raise Killed()
            self.state[me] = 'running'
        return me

    def emit(self, *ev):
        me = self.me()
        if me is not None:
            self.log.append((me,) + ev)

    def kill(self):
        """abandon the run: every parked thread unwinds with Killed"""
        with self.cv:
            self.killed = True
            self.running = None
            self.cv.notify_all()

    def finish(self):
        me = self.me()
        if self.killed:
            with self.cv:
                self.state[me] = 'done'
                self.cv.notify_all()
            return
        self.before('end')
        self.log.append((me, 'end'))
        with self.cv:
            self.state[me] = 'done'
            self.running = None
            self.cv.notify_all()

    # ------------------------------------------------------------ scheduler side (main thread)
    def enabled(self, t):
        if self.state.get(t) != 'parked':
            return False
        kind, obj = self.pending[t]
        if kind == 'acq':
            return obj.owner in (None, t)
        if kind == 'join':
            return self.state.get(obj) in ('done', None)
        return True

    def wait_all_parked(self, tids, patience=40):
        import time
        t0 = time.time()
        with self.cv:
            while self.running is not None or any(self.state.get(t) in ('new', 'running') for t in tids):
                self.cv.wait(timeout=5)
                if time.time() - t0 > patience:
                    # a thread is blocked (or spinning) somewhere outside every scheduling point: the run cannot go on
                    who = [t for t in tids if self.state.get(t) in ('new', 'running')]
                    raise Deadlock('threads %r neither finish nor reach a scheduling point' % (who or [self.running],))

    def step(self, t):
        with self.cv:
            self.running = t
            self.ran.append(t)
            self.cv.notify_all()
            deadline = 0
            while self.running is not None:
                if not self.cv.wait(timeout=10):
                    deadline += 1
                    if deadline > 3:
                        raise Deadlock('thread %r does not yield' % (t,))

    def run(self, tids, choose):
        """choose(enabled list, step index) -> tid.  Runs until every thread is done."""
        n = 0
        self.wait_all_parked(tids)
        while True:
            en = [t for t in tids if self.enabled(t)]
            if not en:
                if all(self.state.get(t) == 'done' for t in tids):
                    return True
                raise Deadlock('no enabled thread: %r' % ({t: (self.state.get(t), self.pending.get(t, (None,))[0])
                                                           for t in tids},))
            t = choose(en, n)
            self.step(t)
            self.wait_all_parked(tids)
            n += 1
            if n > self.step_limit:
                raise Deadlock('step limit')


# ---------------------------------------------------------------- instrumented stand-ins

def make_lock_class(S):
    class ILock:
        def __init__(self):
            self.owner = None
            self.depth = 0

        def acquire(self, blocking=True, timeout=-1):
            if not blocking and S.me() is not None:
                # a non-blocking attempt is an atomic action of its own that is always enabled
                # (the unchanged library never makes one; a changed one may)
                me = S.before('try', self)
                if self.owner not in (None, me):
                    S.emit('try', 0)
                    return False
                self.owner = me
                self.depth += 1
                S.emit('try', 1)
                return True
            me = S.before('acq', self)
            if me is None:          # unregistered (harness) thread: plain semantics, no scheduling
                self.depth += 1
                return True
            assert self.owner in (None, me)
            self.owner = me
            self.depth += 1
            S.emit('acq')
            return True

        def release(self):
            me = S.before('rel', self)
            self.depth -= 1
            if self.depth == 0:
                self.owner = None
            if me is not None:
                S.emit('rel')

        def __enter__(self):
            self.acquire()
            return self

        def __exit__(self, *a):
            self.release()
    return ILock


def make_deque_class(S, pid_of):
    class IDeque(collections.deque):
        def append(self, x):
            S.before('app')
            collections.deque.append(self, x)
            S.emit('app', pid_of(x))

        def popleft(self):
            S.before('pop')
            x = collections.deque.popleft(self)
            S.emit('pop', pid_of(x))
            S.current_pkt[S.me()] = pid_of(x)
            return x

        def __len__(self):
            n = collections.deque.__len__(self)
            if S.me() is not None:
                S.before('chk')
                n = collections.deque.__len__(self)
                S.emit('chk', n)
            return n

        def __bool__(self):
            return self.__len__() > 0
    return IDeque


class ISock:
    def __init__(self, S):
        self.S = S
        self.wire = []          # (tid, pid, chunk index, bytes)
        self.closed = False
        self.chunk = {}
        self.fail_prefix = None     # fault injection: the n-th length-prefix send raises EPIPE once
        self.prefixes = 0

    def send(self, data):
        S = self.S
        me = S.before('snd')
        p = S.current_pkt.get(me)
        c = self.chunk.get(me, 0)
        self.chunk[me] = 1 - c
        if self.closed:
            raise OSError(9, 'Bad file descriptor')
        if c == 0:
            self.prefixes += 1
            if self.fail_prefix is not None and self.prefixes - 1 == self.fail_prefix:
                self.chunk[me] = 0
                S.emit('sndfail', p)
                raise BrokenPipeError(32, 'Broken pipe')
        if c == 1 and me != 0 and getattr(self, 'fail_user_body', None) is not None:
            # fault injection: the n-th BODY send made by a thread other than the networking thread (i.e. inside a flush or a
            # forced write) raises once -- its length prefix is already on the wire
            self.user_bodies = getattr(self, 'user_bodies', 0) + 1
            if self.user_bodies - 1 == self.fail_user_body:
                S.emit('sndfail', p)
                raise BrokenPipeError(32, 'Broken pipe')
        self.wire.append((me, p, c, bytes(data)))
        S.emit('snd', p, c)
        return len(data)

    def shutdown(self, how):
        self.S.before('shut')
        self.S.emit('shut')
        if getattr(self, 'shutdown_fails', False):        # the peer has already reset the connection
            raise OSError(107, 'Transport endpoint is not connected')

    def close(self):
        self.S.before('cls')
        self.closed = True
        self.S.emit('cls')

    def fileno(self):
        return 99


class IFile:
    def __init__(self):
        self.closed = False

    def read(self, n=-1):
        return b''

    def close(self):
        self.closed = True

    def fileno(self):
        return 99


def make_select(S):
    def select(r, w, x, timeout=None):
        S.before('sel')
        S.emit('sel')
        # nothing is ever readable; a socket asked about for WRITING is writable unless the scenario models back-pressure
        # (`stall_w` polls during which the peer has not drained its receive window yet; a blocking send would just wait)
        ready = []
        for sk in w:
            base = getattr(sk, 'actual_socket', sk)
            n = getattr(base, 'stall_w', 0)
            if n > 0:
                base.stall_w = n - 1
            else:
                ready.append(sk)
        return [], ready, []
    return types.SimpleNamespace(select=select, error=OSError)


def make_nt_class(S, C):
    """NetworkingThread with `interrupt` as an instrumented attribute (reads are `rdi`, a write of
    True is `sti`); run() is pyCraft's own, bracketed by scheduler registration."""
    base = C.NetworkingThread

    class INT(base):
        def __init__(self, *a, **k):
            self._int = False
            self.sched_tid = None
            base.__init__(self, *a, **k)

        @property
        def interrupt(self):
            if S.me() is not None:
                S.before('rdi')
                v = self._int
                S.emit('rdi', int(bool(v)))
                return v
            return self._int

        @interrupt.setter
        def interrupt(self, v):
            if v and S.me() is not None:
                S.before('sti')
                self._int = v
                S.emit('sti')
            else:
                self._int = v

        def run(self):
            S.register_current(self.sched_tid)
            try:
                base.run(self)
            except Killed:
                pass
            except BaseException as e:    # re-raised from the thread
                S.errors.append((self.sched_tid, e))
            finally:
                S.finish()
    return INT


def user_thread(S, tid, body):
    """a harness thread running `body()` under the scheduler"""
    def run():
        S.register_current(tid)
        try:
            body()
        except Killed:
            pass
        except BaseException as e:
            S.errors.append((tid, e))
        finally:
            S.finish()
    S.add(tid)

    class UThread(threading.Thread):
        # code under test that waits for this thread (join) does so as a schedulable action, like for networking threads
        sched_tid = tid

        def join(self, timeout=None):
            if S.me() is not None:
                S.before('join', tid)
                S.emit('join', tid)
            else:
                threading.Thread.join(self, timeout)

        def is_alive(self):
            if S.me() is not None:
                return S.state.get(tid) not in ('done', None)
            return threading.Thread.is_alive(self)
    t = UThread(target=run, name='user%d' % tid, daemon=True)
    return t
